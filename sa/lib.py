"""Shared semantic helpers used by several rule modules."""
from mir import strip_generics, AnchorMissing
import values
from values import Ev, fmt

TAG = "roughenough::tag::Tag"
VERSION = "roughenough::version::Version"
VERSIONS = ("Google", "RfcDraft13")

APPENDERS = ("extend_from_slice", "extend", "push", "write_all", "push_str", "append")


def callee_name(p):
    return strip_generics(p).split("::")[-1]


def is_call(t, suffix=None):
    if not (isinstance(t, tuple) and t and t[0] == "call"):
        return False
    if suffix is None:
        return True
    p = strip_generics(t[1])
    return p == suffix or p.endswith("::" + suffix)


class World:
    """Cross-function helpers: cached evaluators, constructor field maps, object histories."""

    def __init__(self, ctx):
        self.ctx = ctx
        self.prog = ctx.prog
        self._ev = {}
        self._ctor = {}

    def ev(self, fnpath):
        if fnpath not in self._ev:
            fn = self.prog.fns.get(fnpath)
            if fn is None:
                raise AnchorMissing("function " + fnpath)
            self.ctx.touched.add(fnpath)
            self._ev[fnpath] = Ev(self.prog, fn)
        return self._ev[fnpath]

    # ---- struct constructors
    def constructions(self, adt):
        """All aggregate constructions of `adt` in the program: [(fn, bb, idx, {field: term})]"""
        out = []
        for fn in self.prog.fns.values():
            for bl in fn.blocks:
                if bl.idx not in fn.reachable():
                    continue
                for i, st in enumerate(bl.stmts):
                    if st["k"] == "assign" and st["rv"]["k"] == "agg" and st["rv"].get("ak") == "adt" and st["rv"]["adt"] == adt:
                        ev = self.ev(fn.path)
                        t = ev.rvalue(st["rv"], (bl.idx, i))
                        fields = {}
                        if t[0] == "agg" and len(t) > 3 and t[3]:
                            fields = dict(zip(t[3], t[2]))
                        out.append((fn, bl.idx, i, fields))
        return out

    def ctor_fields(self, adt):
        if adt not in self._ctor:
            cs = self.constructions(adt)
            self._ctor[adt] = cs
        return self._ctor[adt]

    # ---- objects
    def obj_init(self, t):
        """Initial value of an ('obj', fn, l) term if it has exactly one whole definition."""
        if not (isinstance(t, tuple) and t and t[0] == "obj"):
            return None
        ev = self.ev(t[1])
        inits = ev.obj_init(t[2])
        if len(inits) == 1:
            return inits[0][1]
        return None

    def frozen_init(self, t):
        """Initial value of an object that is never written afterwards (no `&mut` use, no element or field assignment): its value wherever it is
        read.  None when the object is, or may be, modified after initialisation."""
        init = self.obj_init(t)
        if init is None:
            return None
        ev = self.ev(t[1])
        fn = ev.fn
        for (b, callee, argi, ap) in ev.events_on(t[2]):
            tys = fn.blocks[b].term.get("arg_tys") or []
            if argi < len(tys) and tys[argi].startswith("&mut"):
                return None
        for (b, i, k) in fn.defs().get(t[2], []):
            if k in ("partial",):
                return None
        return init

    def obj_events(self, t, live=None):
        ev = self.ev(t[1])
        return ev.events_on(t[2])

    def buffer_seq(self, t, upto_bb=None, ev=None):
        """Ordered content history of a buffer-like object: [init term] + appended terms.  Returns None when the history
        is not a straight dominance-ordered sequence of known appenders (fail closed)."""
        if not (isinstance(t, tuple) and t and t[0] == "obj"):
            return None
        ev = ev or self.ev(t[1])
        fn = ev.fn
        init = ev.obj_init(t[2])
        if len(init) != 1:
            return None
        seq = [init[0][1]]
        last_bb = init[0][0]
        for (b, callee, argi, ap) in ev.events_on(t[2]):
            if upto_bb is not None and (b == upto_bb or not fn.dominates(b, upto_bb)):
                if b == upto_bb:
                    continue
                # an event that does not dominate the use: only harmless if it cannot precede it
                if fn.reaches(b, upto_bb):
                    return None
                continue
            name = callee_name(callee)
            t_call = fn.blocks[b].term
            if argi != 0:
                # passed as a non-receiver argument: read-only use if the parameter type is a shared ref
                aty = t_call["arg_tys"][argi]
                if aty.startswith("&mut"):
                    return None
                continue
            aty = t_call["arg_tys"][0]
            if not aty.startswith("&mut"):
                continue  # shared borrow: read
            if name in APPENDERS:
                if not fn.dominates(last_bb, b) or fn.in_loop(b):
                    return None
                args = ev.call_args(b)
                seq.append(args[1] if len(args) > 1 else values.TOP)
                last_bb = b
            elif name in ("reserve", "deref_mut", "as_mut_slice", "as_mut"):
                continue
            else:
                return None
        return seq

    READERS = ("next", "read_u16", "read_u32", "read_u64", "read_exact", "read_to_end", "read", "position",
               "set_position", "next_back", "by_ref")

    def expand(self, t, depth=0):
        """Replace objects that are only read/advanced (cursors, iterators, `&mut &[u8]` readers) by
        ('reader', initial value); other objects keep their identity."""
        if not isinstance(t, tuple) or not t or depth > 12:
            return t
        if t[0] == "obj":
            init = self.obj_init(t)
            if init is None:
                return t
            ev = self.ev(t[1])
            fn = ev.fn
            for (b, callee, argi, ap) in ev.events_on(t[2]):
                aty = fn.blocks[b].term["arg_tys"][argi]
                if aty.startswith("&mut") and not (argi == 0 and callee_name(callee) in self.READERS):
                    return t
            return ("reader", self.expand(init, depth + 1))
        if t[0] in ("int", "str", "bytes", "enum", "param", "zst", "static", "fnref", "top"):
            return t
        return tuple(self.expand(x, depth + 1) if isinstance(x, tuple) else x for x in t)

    # ---- substitution
    def subst(self, t, mapping):
        if not isinstance(t, tuple) or not t:
            return t
        if t in mapping:
            return mapping[t]
        if t[0] in ("int", "str", "bytes", "enum", "param", "obj", "zst", "static", "fnref", "top"):
            return t
        r = tuple(self.subst(x, mapping) if isinstance(x, tuple) else x for x in t)
        # a field of a value that has just become a literal aggregate (a small struct / tuple passed as an argument) is that component
        if r[0] == "field" and isinstance(r[1], tuple) and r[1] and r[1][0] == "agg":
            agg = r[1]
            names = agg[3] if len(agg) > 3 and agg[3] else None
            if names and r[2] in names:
                return agg[2][list(names).index(r[2])]
            if not names and str(r[2]).isdigit() and int(r[2]) < len(agg[2]):
                return agg[2][int(r[2])]
        return r

    def bind_params(self, t, fnpath, args):
        mapping = {("param", fnpath, i + 1): a for i, a in enumerate(args)}
        return self.subst(t, mapping)

    def subst_fields(self, t, self_term, fields):
        """Replace ('field', self_term, F) by fields[F]."""
        if not isinstance(t, tuple) or not t:
            return t
        if t[0] == "field" and t[1] == self_term and t[2] in fields:
            return fields[t[2]]
        if t[0] in ("int", "str", "bytes", "enum", "param", "obj", "zst", "static", "fnref", "top"):
            return t
        return tuple(self.subst_fields(x, self_term, fields) if isinstance(x, tuple) else x for x in t)


def tag_of(t):
    if isinstance(t, tuple) and t and t[0] == "enum" and t[1] == TAG:
        return t[2]
    return None


PARSE_WRAPPERS = ("RtMessage::from_bytes", "RtMessage::into_hash_map", "read_u64", "read_u32", "read_u16",
                  "ReadBytesExt::read_u64", "ReadBytesExt::read_u32", "::from_le_bytes")
# views of the same bytes on the way from a field value to its decoder
BYTE_VIEWS = ("first_chunk", "try_into", "try_from", "copied", "cloned", "as_slice", "as_ref", "deref", "borrow", "to_vec", "to_owned", "as_bytes", "split_first_chunk")


def tagpath(world, t, depth=0):
    """Interpret a term as `root[TAG1][TAG2]...` where each step is a tag lookup in a (nested) Roughtime message:
    returns (root_term, (tags...), decoders) or None.  Looks through from_bytes / into_hash_map / unwrap / LE reads."""
    tags = []
    decoders = []
    for _ in range(40):
        if not isinstance(t, tuple) or not t:
            return None
        if t[0] == "index":
            tg = tag_of(t[2])
            if tg is None:
                break
            tags.append(tg)
            t = t[1]
            continue
        if t[0] == "call":
            name = strip_generics(t[1])
            short = "::".join(name.split("::")[-2:])
            if short.endswith("RtMessage::get_field") and len(t[2]) == 2 and tag_of(t[2][1]):
                tags.append(tag_of(t[2][1]))
                t = t[2][0]
                continue
            if any(short.endswith(w) for w in PARSE_WRAPPERS) and t[2]:
                decoders.append(short)
                t = t[2][0]
                continue
            if callee_name(name) in BYTE_VIEWS and t[2]:
                t = t[2][0]
                continue
            # `map.get(&Tag::X)` is the checked form of `map[&Tag::X]`; ok_or / ok_or_else / map_err only change the error of a failed lookup or read
            if callee_name(name) == "get" and len(t[2]) == 2 and tag_of(t[2][1]) and ("HashMap" in name or "BTreeMap" in name):
                tags.append(tag_of(t[2][1]))
                t = t[2][0]
                continue
            if callee_name(name) in ("ok_or", "ok_or_else", "map_err", "context") and t[2] and ("option::Option" in name or "result::Result" in name):
                t = t[2][0]
                continue
            break
        if t[0] in ("vfield", "reader"):
            t = t[1]
            continue
        if t[0] == "obj":
            init = world.obj_init(t)
            if init is None:
                break
            t = init
            continue
        if t[0] == "cast":
            t = t[3]
            continue
        break
    return (t, tuple(reversed(tags)), tuple(decoders))


def enforced(fn, ev, call_bb, world=None):
    """T-diverge for a bool-returning predicate call at call_bb: returns
    ('diverge', [false successor blocks]) when every branch on the result has a diverging false edge,
    ('returned', None) when the result flows to the function's return value,
    ('unchecked', reason) otherwise."""
    t = fn.blocks[call_bb].term
    cterm = ev.call_term(call_bb)
    div = fn.diverging()
    found_branch = []
    bad = []
    for bl in fn.blocks:
        if bl.idx not in fn.reachable():
            continue
        tt = bl.term
        cond = None
        if tt["k"] == "switch":
            cond = ev.op(tt["op"], (bl.idx, "term"))
        elif tt["k"] == "assert":
            cond = ev.op(tt["cond"], (bl.idx, "term"))
        if cond is None:
            continue
        neg = False
        c = cond
        while isinstance(c, tuple) and c[0] == "un" and c[1] == "Not":
            c = c[2]
            neg = not neg
        if c != cterm:
            continue
        if tt["k"] == "assert":
            # assert(cond == expected) diverges (panics) otherwise
            exp_true = tt["expected"] != neg
            if exp_true:
                found_branch.append(bl.idx)
            else:
                bad.append((bl.idx, "asserted false"))
            continue
        # switch: find the successor taken when the predicate is false
        false_val = 1 if neg else 0
        false_succ = None
        for val, tgt in tt["cases"]:
            if val == false_val:
                false_succ = tgt
        if false_succ is None:
            false_succ = tt["otherwise"]
        if false_succ in div:
            found_branch.append(bl.idx)
        else:
            bad.append((bl.idx, "false edge bb%d returns normally" % false_succ))
    if bad:
        return ("unchecked", "; ".join("%s: %s" % (fn.loc(b), why) for b, why in bad))
    if found_branch:
        return ("diverge", found_branch)
    # returned?
    r = ev.ret()
    if values.contains(r, lambda s: s == cterm) or r == cterm:
        return ("returned", None)
    return ("unchecked", "result is neither branched on nor returned")


# ------------------------------------------------------------------------------------------------ message / buffer models
def message_events(W, ev, obj, live=None):
    """Ordered events on an RtMessage object local: [('add', tag, value_term, bb) | ('clear', bb) | ('other', name, bb)].
    Read-only uses (shared borrows) are skipped.  Order is reverse post-order of blocks; the caller checks dominance."""
    fn = ev.fn
    order = {b: i for i, b in enumerate(fn.rpo())}
    out = []
    for (b, callee, argi, ap) in ev.events_on(obj[2]):
        if live is not None and b not in live:
            continue
        t = fn.blocks[b].term
        aty = t["arg_tys"][argi]
        if not aty.startswith("&mut"):
            continue
        name = callee_name(callee)
        if argi == 0 and strip_generics(callee).endswith("RtMessage::add_field"):
            args = ev.call_args(b)
            out.append(("add", tag_of(args[1]), args[2], b))
        elif argi == 0 and strip_generics(callee).endswith("RtMessage::clear"):
            out.append(("clear", b))
        else:
            out.append(("other", name, b))
    out.sort(key=lambda e: order.get(e[-1], 10 ** 6))
    return out


def straight_line(fn, bbs):
    """Each block dominates the next and none lies in a loop."""
    for a, b in zip(bbs, bbs[1:]):
        if not fn.dominates(a, b):
            return False
    return not any(fn.in_loop(b) for b in bbs)


def le_written(W, obj):
    """For a fixed-size byte array object initialised with zeros and written exactly once through
    byteorder::WriteBytesExt::write_uN::<E>: returns dict(width=N, size=array len, endian=E, value=term)."""
    # x.to_le_bytes() / to_be_bytes() / to_ne_bytes(): the std way of producing the same array
    t0 = obj
    while is_call(t0) and callee_name(t0[1]) in values.VIEW_NAMES + ("to_vec", "into", "from", "to_owned", "clone") and t0[2]:
        t0 = t0[2][0]
    if is_call(t0) and callee_name(t0[1]) in ("to_le_bytes", "to_be_bytes", "to_ne_bytes") and t0[2]:
        import re as _re
        m = _re.search(r"impl ([ui])(\d+)>", t0[1]) or _re.search(r"::([ui])(\d+)::", t0[1])
        arg = t0[2][0]
        width = int(m.group(2)) // 8 if m else None
        if width is None:
            ty = W.ev(t0[3][0]).tty.get(arg) if len(t0) > 3 and t0[3] else None
            if ty in values.INT_RANGES and ty[1:].isdigit():
                width = int(ty[1:]) // 8
        nm = callee_name(t0[1])
        return {"size": width, "width": width, "endian": {"to_le_bytes": "LittleEndian", "to_be_bytes": "BigEndian", "to_ne_bytes": "NativeEndian"}[nm],
                "value": arg, "bb": t0[3][1] if len(t0) > 3 and t0[3] else None, "signed": bool(m and m.group(1) == "i")}
    if not (isinstance(obj, tuple) and obj and obj[0] == "obj"):
        return None
    ev = W.ev(obj[1])
    fn = ev.fn
    init = W.obj_init(obj)
    if not (isinstance(init, tuple) and init[0] == "repeat"):
        return None
    writes = []
    for (b, callee, argi, ap) in ev.events_on(obj[2]):
        t = fn.blocks[b].term
        if not t["arg_tys"][argi].startswith("&mut"):
            continue
        name = callee_name(callee)
        if name.startswith("write_u") or name.startswith("write_i"):
            writes.append((b, name, t))
        elif name in ("deref_mut", "as_mut", "as_mut_slice", "borrow_mut"):
            continue
        else:
            return None
    if len(writes) != 1:
        return None
    b, name, t = writes[0]
    endian = [s for s in t["fn"].get("substs", []) if "Endian" in s]
    return {"size": init[2], "width": int(name.split("_")[1][1:]) // 8, "endian": endian[0].split("::")[-1] if endian else None,
            "value": ev.call_args(b)[1], "bb": b, "signed": name.startswith("write_i")}


def iter_elem(W, t):
    """Recognise `container.iter().enumerate().next()` element projections.
    Returns dict(container=term, what='index'|'elem', fields=(...), site=next call site) or None."""
    fields = []
    cur = t
    for _ in range(12):
        if isinstance(cur, tuple) and cur and cur[0] == "field":
            fields.append(cur[2])
            cur = cur[1]
            continue
        break
    fields = list(reversed(fields))
    # index loop: `for i in 0..container.len() { .. container[i] .. }`
    if isinstance(cur, tuple) and cur and cur[0] == "index":
        ri = range_index(W, cur[2])
        if ri is not None and W.expand(cur[1]) == ri["container"]:
            return {"container": ri["container"], "what": "elem", "fields": tuple(fields), "site": ri["site"]}
        return None
    if not fields:
        ri = range_index(W, cur)
        if ri is not None:
            return {"container": ri["container"], "what": "index", "fields": (), "site": ri["site"]}
    if not (isinstance(cur, tuple) and cur and cur[0] == "vfield" and cur[2] == "Some"):
        return None
    nxt = cur[1]
    if not is_call(nxt) or callee_name(nxt[1]) != "next":
        return None
    src = W.expand(nxt[2][0])
    while isinstance(src, tuple) and src and src[0] == "reader":
        src = src[1]
    enumerated = False
    if is_call(src) and callee_name(src[1]) == "enumerate":
        enumerated = True
        src = src[2][0]
        while isinstance(src, tuple) and src and src[0] == "reader":
            src = src[1]
    what = "elem"
    if enumerated:
        if not fields:
            return None
        if fields[0] == "0":
            what = "index"
        fields = fields[1:]
    return {"container": src, "what": what, "fields": tuple(fields), "site": nxt[3]}


def range_index(W, t):
    """`t` is the loop variable of `for i in 0..container.len()` where the container is not mutated inside the loop:
    returns dict(container, site) or None."""
    t = W.expand(t) if hasattr(W, "expand") else t
    if not (isinstance(t, tuple) and t and t[0] == "vfield" and t[2] == "Some"):
        return None
    nxt = t[1]
    if not is_call(nxt) or callee_name(nxt[1]) != "next" or "Range" not in nxt[1]:
        return None
    src = W.expand(nxt[2][0])
    while isinstance(src, tuple) and src and src[0] == "reader":
        src = src[1]
    if not (isinstance(src, tuple) and src and src[0] == "agg" and str(src[1]).endswith("Range::Range") and len(src[2]) == 2):
        return None
    lo, hi = src[2]
    if lo != ("int", 0):
        return None
    hi = W.expand(hi)
    if isinstance(hi, tuple) and hi and hi[0] == "len":
        cont = hi[1]
    elif is_call(hi) and callee_name(hi[1]) == "len" and hi[2]:
        cont = W.expand(hi[2][0])
    else:
        return None
    # the container must not change while the loop runs
    site = nxt[3]
    fn = W.prog.fns.get(site[0])
    if fn is None:
        return None
    loops = fn.in_loop(site[1])
    if not loops:
        return None
    ev = W.ev(fn.path)
    import flow as _flow
    for l in loops:
        for b in l["body"]:
            for m in _flow.mutated_bases(fn, ev, b):
                if m == cont or values.contains(cont, lambda x, m=m: x == m):
                    return None
    return {"container": cont, "site": site}


def zero_fill(W, ev, t):
    """If `t` is a byte vector consisting of n zero bytes, return the term of n: `vec![0; n]`, `[0; n]`, or a fresh vector (`new`,
    `with_capacity`) that receives exactly one `resize(n, 0)`.  Else None."""
    if not isinstance(t, tuple) or not t:
        return None
    if is_call(t) and callee_name(t[1]) == "from_elem" and len(t[2]) == 2 and t[2][0] == ("int", 0):
        return t[2][1]
    if t[0] == "repeat" and t[1] == ("int", 0):
        return ("int", t[2]) if isinstance(t[2], int) else t[2]
    if t[0] == "obj":
        e2 = ev if ev is not None and ev.fn.path == t[1] else W.ev(t[1])
        inits = e2.obj_init(t[2])
        if len(inits) != 1:
            return None
        init = inits[0][1]
        z = zero_fill(W, e2, init) if not (isinstance(init, tuple) and init and init[0] == "obj") else None
        if z is not None:
            return z
        if not (is_call(init) and callee_name(init[1]) in ("new", "with_capacity") and "vec::Vec" in init[1]):
            return None
        fills = []
        for (b, callee, argi, ap) in e2.events_on(t[2]):
            if argi != 0 or not e2.fn.blocks[b].term["arg_tys"][0].startswith("&mut"):
                continue
            nm = callee_name(callee)
            if nm in ("deref_mut", "as_mut", "as_mut_slice", "reserve", "reserve_exact"):
                continue
            a = e2.call_args(b)
            if nm == "resize" and len(a) == 3 and a[2] == ("int", 0):
                fills.append(a[1])
            else:
                return None
        return fills[0] if len(fills) == 1 else None
    return None


def byte_pieces(W, t, depth=0):
    """Flatten a byte-string valued term into the sequence of pieces it is the concatenation of: `[a, b].concat()`, a Vec built by a
    straight sequence of appends, views (`as_slice`, `&v[..]`).  Unknown shapes are returned as a single piece."""
    t = values.strip_payload(t)
    if depth > 4 or not isinstance(t, tuple) or not t:
        return [t]
    if is_call(t) and callee_name(t[1]) in values.VIEW_NAMES + ("to_vec", "to_owned", "clone", "into", "from") and t[2]:
        return byte_pieces(W, t[2][0], depth + 1)
    if t[0] == "index" and isinstance(t[2], tuple) and t[2][0] == "agg" and str(t[2][1]).endswith("RangeFull"):
        return byte_pieces(W, t[1], depth + 1)
    if is_call(t) and callee_name(t[1]) == "concat" and len(t[2]) == 1 and isinstance(t[2][0], tuple) and t[2][0][0] == "agg" and t[2][0][1] == "array":
        out = []
        for x in t[2][0][2]:
            out.extend(byte_pieces(W, x, depth + 1))
        return out
    if t[0] == "obj":
        seq = W.buffer_seq(t)
        if seq is not None:
            out = []
            for i, x in enumerate(seq):
                if i == 0 and is_call(x) and callee_name(x[1]) in ("new", "with_capacity"):
                    continue
                out.extend(byte_pieces(W, x, depth + 1))
            return out
    return [t]


def digest_form(W, ev, t):
    """Recognise `H(pieces)[..n]`: returns dict(alg=term, pieces=[terms], take=n or None) for
    `Context::new(alg); update(p)*; finish()` and for the one-shot `digest::digest(alg, data)`, followed by `[0..n]`, `[..n]`, or
    `.iter().copied().take(n).collect()`.  Else None."""
    take = None
    t = values.strip_payload(t)
    for _ in range(8):
        if is_call(t) and callee_name(t[1]) in values.VIEW_NAMES + ("to_vec", "to_owned", "collect", "copied", "cloned", "iter", "into_iter", "into", "from") and t[2]:
            t = values.strip_payload(t[2][0])
            continue
        if isinstance(t, tuple) and t and t[0] == "obj":
            # `let mut out = [0u8; N]; out.copy_from_slice(&digest[..N]); out`
            src = array_copy_source(W, t)
            if src is None:
                break
            t = values.strip_payload(src)
            continue
        if isinstance(t, tuple) and t and t[0] == "field" and t[2] == "0" and is_call(t[1]) and callee_name(t[1][1]) in ("split_at", "split_at_checked") and len(t[1][2]) == 2 \
                and t[1][2][1][0] == "int":
            # `digest.split_at(n).0`: the first n bytes
            take = t[1][2][1][1] if take is None else min(take, t[1][2][1][1])
            t = values.strip_payload(t[1][2][0])
            continue
        if is_call(t) and callee_name(t[1]) == "take" and len(t[2]) == 2 and t[2][1][0] == "int":
            take = t[2][1][1] if take is None else min(take, t[2][1][1])
            t = values.strip_payload(t[2][0])
            continue
        if isinstance(t, tuple) and t and t[0] == "index" and isinstance(t[2], tuple) and t[2][0] == "agg":
            lab, ops = str(t[2][1]), t[2][2]
            if lab.endswith("Range::Range") and ops[0] == ("int", 0) and ops[1][0] == "int":
                take = ops[1][1]
            elif lab.endswith("RangeTo::RangeTo") and ops[0][0] == "int":
                take = ops[0][1]
            elif lab.endswith("RangeFull"):
                pass
            else:
                return None
            t = values.strip_payload(t[1])
            continue
        break
    if is_call(t) and callee_name(t[1]) == "digest" and "ring::digest" in t[1] and len(t[2]) == 2:
        return {"alg": t[2][0], "pieces": byte_pieces(W, W.expand(t[2][1])), "take": take}
    if is_call(t) and callee_name(t[1]) == "finish" and t[2] and isinstance(t[2][0], tuple) and t[2][0][0] == "obj":
        cobj = t[2][0]
        init = W.obj_init(cobj)
        if not is_call(init, "Context::new"):
            return None
        e2 = W.ev(cobj[1])
        fn2 = e2.fn
        order = {b: i for i, b in enumerate(fn2.rpo())}
        ups = sorted((order[b], b) for (b, callee, argi, ap) in W.obj_events(cobj) if callee_name(callee) == "update" and argi == 0)
        if any(fn2.in_loop(b) for _, b in ups) or any(not fn2.dominates(ups[i][1], ups[i + 1][1]) for i in range(len(ups) - 1)):
            return None
        pieces = []
        for _, b in ups:
            pieces.extend(byte_pieces(W, e2.call_args(b)[1]))
        return {"alg": init[2][0], "pieces": pieces, "take": take}
    return None


def ret_as_predicate(W, fnpath):
    """Return term of a bool function, with `match x { Ok(_) => true, Err(_) => false }` / `matches!(x, Ok(..))` normalised to
    is_ok(x) (and the Option analogue to is_some(x))."""
    import flow
    ev = W.ev(fnpath)
    fn = ev.fn
    r = ev.ret()
    if not (isinstance(r, tuple) and r and r[0] == "phi" and all(isinstance(a, tuple) and a[0] == "int" and a[1] in (0, 1) for a in r[1])):
        return r
    IN = flow.must_facts(fn, ev)
    subj = {}
    nsites = 0
    for bl in fn.blocks:
        if bl.idx not in fn.reachable():
            continue
        for i, st in enumerate(bl.stmts):
            if st["k"] == "assign" and st["dst"]["l"] == 0 and not st["dst"].get("p") and st["rv"]["k"] == "use" and "c" in st["rv"]["op"]:
                val = ev.rvalue(st["rv"], (bl.idx, i))
                if not (isinstance(val, tuple) and val[0] == "int" and val[1] in (0, 1)):
                    return r
                found = []
                for rel in flow.rel_facts_at(IN, bl.idx):
                    if rel[0] in ("Eq", "Ne") and isinstance(rel[1], tuple) and rel[1][0] == "discr" and isinstance(rel[2], tuple) and rel[2][0] == "int" and rel[2][1] in (0, 1):
                        x = values.strip_payload(rel[1][1])
                        variant = rel[2][1] if rel[0] == "Eq" else 1 - rel[2][1]
                        if is_call(x):
                            found.append((x, variant))
                if not found:
                    return r
                nsites += 1
                for x, variant in found:
                    subj.setdefault(x, set()).add((val[1], variant))
    # the subject of the match is the value whose variant differs between the `true` and the `false` arm (a value that was matched earlier,
    # e.g. by a let-else that diverges, has the same variant on both)
    subj = {x: pr for x, pr in subj.items() if len({v for (_b, v) in pr}) == 2}
    if len(subj) != 1:
        return r
    x, pairs = next(iter(subj.items()))
    ty = ev.tty.get(x, "") or ""
    is_opt = "option::Option" in ty.split("<")[0]
    good = 1 if is_opt else 0
    if pairs == {(1, good), (0, 1 - good)}:
        return ("call", "core::option::Option::is_some" if is_opt else "core::result::Result::is_ok", (x,), None)
    return r


ITER_DRIVERS = ("map", "for_each", "filter_map", "flat_map", "try_for_each")


def spawn_contexts(ctx, W, crate_prefix="roughenough_server"):
    """Every thread spawn of the server binary, wherever it is written: directly in main, in a helper (new helpers are inlined into main),
    or in a closure run by an iterator adaptor (`(0..n).map(|i| .. spawn ..).collect()`).
    Returns dicts: fn (function or closure containing the spawn call), ev, bb, term, entry (the new thread's closure path or None),
    looped (bool), range (term the loop / iterator runs over, or None), body (blocks executed once per iteration),
    main_bb (block of main at which the spawn, or the iterator chain that runs it, sits) or None."""
    P = ctx.prog
    main = P.fns.get(crate_prefix + "::main")
    out = []
    for f in P.fns.values():
        if not f.path.startswith(crate_prefix):
            continue
        ev = None
        for bb, t in f.calls():
            if callee_name(t["fn"].get("path", "")) not in ("spawn", "spawn_unchecked", "spawn_scoped") or "thread" not in t["fn"].get("path", ""):
                continue
            ev = ev or W.ev(f.path)
            clos = [c for c in (t.get("closures") or []) if not c.startswith("fn:")]
            d = {"fn": f, "ev": ev, "bb": bb, "term": t, "entry": clos[0] if clos else None, "looped": False, "range": None, "body": set(), "main_bb": None}
            loops = f.in_loop(bb)
            if loops:
                lp = min(loops, key=lambda l: len(l["body"]))
                d["looped"] = True
                d["body"] = set(lp["body"])
                nxt = [b2 for b2, t2 in f.calls() if b2 in lp["body"] and callee_name(t2["fn"].get("path", "")) == "next"]
                if nxt:
                    src = W.expand(ev.call_args(nxt[0])[0])
                    while isinstance(src, tuple) and src and src[0] == "reader":
                        src = src[1]
                    d["range"] = src
            owner_fn, owner_bb = f, bb
            if "{closure" in f.path:
                # a closure: who runs it, and over what?
                for (o, b2) in P.closure_sites(f.path)[:1]:
                    oev = W.ev(o.path)
                    t2 = o.blocks[b2].term
                    if True:
                        if True:
                            owner_fn, owner_bb = o, b2
                            if callee_name(t2["fn"].get("path", "")) in ITER_DRIVERS and not loops:
                                src = W.expand(oev.call_args(b2)[0])
                                for _ in range(4):
                                    while isinstance(src, tuple) and src and src[0] == "reader":
                                        src = src[1]
                                    if is_call(src) and callee_name(src[1]) in ("into_iter", "iter", "by_ref", "rev") and src[2]:
                                        src = W.expand(src[2][0])
                                d["looped"] = True
                                d["range"] = src
                                d["body"] = set(f.reachable())
            # locate in main
            for _ in range(4):
                if main is not None and owner_fn.path == main.path:
                    d["main_bb"] = owner_bb
                    break
                cs = P.callers(owner_fn.path)
                if len(cs) != 1:
                    break
                owner_fn, owner_bb = P.fns[cs[0][0]], cs[0][1]
            out.append(d)
    return out


def value_holders(fn, call_bb):
    """Locals that (may) hold the value returned by the call in block call_bb, or a part of it: the destination, the results of
    unwrap/expect/`?` applied to it, and locals it is moved into (also out of an enum payload)."""
    t = fn.blocks[call_bb].term
    holders = {t["dst"]["l"]} if t.get("dst") and not t["dst"].get("p") else set()
    changed = True
    while changed:
        changed = False
        for bl in fn.blocks:
            tt = bl.term
            if tt["k"] == "call" and callee_name(tt["fn"].get("path", "")) in ("unwrap", "expect", "branch", "unwrap_or_else", "into_inner") and tt["args"]:
                a0 = tt["args"][0].get("mv") or tt["args"][0].get("cp")
                if a0 and a0["l"] in holders and tt.get("dst") and not tt["dst"].get("p") and tt["dst"]["l"] not in holders:
                    holders.add(tt["dst"]["l"])
                    changed = True
            for st in bl.stmts:
                if st["k"] == "assign" and st["rv"]["k"] == "use" and not st["dst"].get("p"):
                    src = st["rv"]["op"].get("mv")
                    if src and src["l"] in holders and st["dst"]["l"] not in holders:
                        holders.add(st["dst"]["l"])
                        changed = True
    return holders


def normal_drops(fn, holders):
    """Blocks (not on unwind paths) whose terminator drops one of the locals as a whole."""
    return [bl.idx for bl in fn.blocks if bl.term["k"] == "drop" and not bl.cleanup and not bl.term["place"].get("p") and bl.term["place"]["l"] in holders]


def le_u32_source(W, t):
    """If `t` decodes a little-endian u32 from a byte slice, return that slice term: byteorder `cursor.read_u32::<LE>()` on
    Cursor::new(s), `LittleEndian::read_u32(s)`, `u32::from_le_bytes(s.try_into())` (also through a copied [u8; 4])."""
    t = uncast(values.strip_payload(W.expand(t)))
    for _ in range(4):
        if not is_call(t):
            return None
        nm = callee_name(t[1])
        if nm == "from_le_bytes" and t[2]:
            src = values.strip_payload(W.expand(t[2][0]))
            for _ in range(4):
                # `s.get(a..b).and_then(|x| x.try_into().ok()).ok_or(E)?`, `<[u8; 4]>::try_from(&s[a..b]).map_err(..)?`: still those bytes
                s2 = values.strip_payload(through_conversions(src)[0])
                if is_call(s2) and callee_name(s2[1]) in ("try_into", "try_from", "copied", "cloned", "as_ref", "deref") and s2[2]:
                    s2 = values.strip_payload(W.expand(s2[2][0]))
                if s2 == src:
                    break
                src = s2
            if isinstance(src, tuple) and src and src[0] == "obj":
                seq = W.buffer_seq(src)
                ev = W.ev(src[1])
                cp = [ev.call_args(b)[1] for (b, callee, argi, ap) in ev.events_on(src[2]) if callee_name(callee) in ("copy_from_slice", "clone_from_slice") and argi == 0]
                if len(cp) == 1:
                    return values.strip_payload(W.expand(cp[0]))
                return None
            if isinstance(src, tuple) and src and src[0] == "agg" and src[1] == "array" and len(src[2]) == 4:
                # [b[c], b[c+1], b[c+2], b[c+3]]: the same four bytes as b[c..c+4]
                es = [values.strip_payload(W.expand(x)) for x in src[2]]
                if all(isinstance(x, tuple) and x and x[0] == "idx" and x[1] == es[0][1] and x[2][0] == "int" for x in es) and \
                        [x[2][1] for x in es] == list(range(es[0][2][1], es[0][2][1] + 4)):
                    c = es[0][2][1]
                    return ("index", es[0][1], ("agg", "core::ops::range::Range::Range", (("int", c), ("int", c + 4)), ("start", "end")))
                return None
            return src
        if nm == "read_u32" and t[2]:
            if not any("LittleEndian" in str(x) or "LE" == str(x).split("::")[-1] for x in ([t[1]] + list(_substs_of(W, t)))):
                return None
            src = values.strip_payload(W.expand(t[2][-1] if "ByteOrder" in t[1] else t[2][0]))
            while isinstance(src, tuple) and src and src[0] == "reader":
                src = src[1]
            if isinstance(src, tuple) and src and src[0] == "obj":
                init = W.obj_init(src)
                if is_call(init, "Cursor::new"):
                    return values.strip_payload(W.expand(init[2][0]))
                return None
            if is_call(src, "Cursor::new"):
                return values.strip_payload(W.expand(src[2][0]))
            return src
        return None
    return None


def _substs_of(W, t):
    if len(t) > 3 and t[3]:
        fn = W.prog.fns.get(t[3][0])
        if fn is not None:
            return fn.blocks[t[3][1]].term["fn"].get("substs", []) + [fn.blocks[t[3][1]].term["fn"].get("self_ty") or ""]
    return []


def uncast(t):
    while isinstance(t, tuple) and t and t[0] == "cast":
        t = t[3]
    return t


# ------------------------------------------------------------------------------------------------ byte-length domain (A8)
DIGEST_LEN = {"ring::digest::SHA512": 64, "ring::digest::SHA256": 32, "ring::digest::SHA384": 48,
              "ring::digest::SHA512_256": 32}


_BL_MODE = ["exact"]


def bytelen_max(W, ev, t):
    """Upper bound of the length of a byte-string valued term: like bytelen, but alternatives (a digest whose width depends on the version)
    give the largest."""
    _BL_MODE[0] = "max"
    try:
        return bytelen(W, ev, t)
    finally:
        _BL_MODE[0] = "exact"


def bytelen(W, ev, t, depth=0):
    """Length in bytes of a byte-string valued term, or None when unknown.  `ev` supplies the assumption set used to
    resolve crate-local accessor calls (e.g. the version)."""
    if not isinstance(t, tuple) or not t or depth > 10:
        return None
    k = t[0]
    if k == "bytes":
        return len(t[1])
    if k == "str":
        return len(t[1].encode())
    if k == "field" and depth < 6:
        # a field declared as a byte array: `public_key: [u8; 32]` is 32 bytes whatever was stored
        import re as _re
        def owner_of(base, d=0):
            if not isinstance(base, tuple) or not base or d > 4:
                return None
            if base[0] == "param" and base[1] in W.prog.fns:
                f0 = W.prog.fns[base[1]]
                ty0 = f0.locals[base[2]]["ty"].replace("&mut ", "").replace("&", "").strip() if base[2] < len(f0.locals) else ""
                return ty0 if ty0 in W.prog.adts else (f0.impl_self if base[2] == 1 else None)
            if base[0] == "field":
                o2 = owner_of(base[1], d + 1)
                a2 = W.prog.adts.get(o2) if o2 else None
                if a2 and a2.get("variants"):
                    for fl2 in a2["variants"][0]["fields"]:
                        if fl2["name"] == base[2]:
                            ty2 = fl2["ty"].replace("&mut ", "").replace("&", "").strip()
                            return ty2 if ty2 in W.prog.adts else None
            return None
        owner = owner_of(t[1])
        a0 = W.prog.adts.get(owner) if owner else None
        if a0 and a0.get("variants"):
            for fl in a0["variants"][0]["fields"]:
                if fl["name"] == t[2]:
                    m0 = _re.fullmatch(r"\[u8; (\d+)\]", fl["ty"].strip())
                    if m0:
                        return int(m0.group(1))
    if k == "repeat":
        n = t[2]
        return n if isinstance(n, int) else None
    if k == "reader":
        return bytelen(W, ev, t[1], depth + 1)
    if k == "obj":
        init = W.obj_init(t)
        if isinstance(init, tuple) and init[0] == "repeat":
            return bytelen(W, ev, init, depth + 1)
        # `let mut v = vec![0u8; n]; fill(&mut v)`: a vector created with n elements and afterwards only written in place keeps its length
        oev = ev if getattr(ev, "fn", None) is not None and ev.fn.path == t[1] else W.ev(t[1])
        inits = oev.obj_init(t[2])
        if len(inits) == 1 and is_call(inits[0][1]) and callee_name(inits[0][1][1]) == "from_elem" and len(inits[0][1][2]) == 2:
            fn0 = oev.fn
            INPLACE = ("fill", "try_fill", "fill_bytes", "try_fill_bytes", "as_mut_slice", "as_mut", "deref_mut", "index_mut", "iter_mut", "copy_from_slice", "clone_from_slice",
                       "swap", "reverse", "sort", "sort_unstable", "read_exact", "borrow_mut", "get_mut", "first_mut", "last_mut", "split_at_mut", "chunks_mut")
            for (b, callee, argi, ap) in oev.events_on(t[2]):
                tys = fn0.blocks[b].term.get("arg_tys") or []
                if argi < len(tys) and tys[argi].startswith("&mut") and callee_name(callee) not in INPLACE:
                    return None
            return intval(W, oev, oev.resolve(inits[0][1][2][1]) if hasattr(oev, "resolve") else inits[0][1][2][1])
        return None
    if k == "phi":
        ls = {bytelen(W, ev, a, depth + 1) for a in t[1]}
        if _BL_MODE[0] == "max" and ls and None not in ls:
            return max(ls)
        return ls.pop() if len(ls) == 1 else None
    if k == "index":
        rng = t[2]
        if rng[0] == "agg":
            lab = str(rng[1])
            ops = [intval(W, ev, o) for o in rng[2]]
            if lab.endswith("RangeTo::RangeTo") and ops[0] is not None:
                return ops[0]
            if lab.endswith("Range::Range") and None not in ops:
                return ops[1] - ops[0]
            if lab.endswith("RangeFull::RangeFull"):
                return bytelen(W, ev, t[1], depth + 1)
            if lab.endswith("RangeFrom::RangeFrom") and ops[0] is not None:
                b = bytelen(W, ev, t[1], depth + 1)
                return None if b is None else b - ops[0]
        return None
    if k == "call":
        name = callee_name(t[1])
        p = strip_generics(t[1])
        if name == "from_elem" and len(t[2]) == 2:
            return intval(W, ev, t[2][1])
        if name in ("to_le_bytes", "to_be_bytes", "to_ne_bytes"):
            w = le_written(W, t)
            return w["width"] if w else None
        if name in values.VIEW_NAMES + ("to_vec", "to_owned", "clone") and t[2]:
            return bytelen(W, ev, t[2][0], depth + 1)
        if name == "concat" and len(t[2]) == 1 and t[2][0][0] == "agg" and t[2][0][1] == "array":
            ls = [bytelen(W, ev, ev.resolve(x), depth + 1) for x in t[2][0][2]]
            return sum(ls) if None not in ls else None
        if p.endswith("digest::Context::finish") or p.endswith("Digest::as_ref") or name == "finish":
            ctxo = t[2][0]
            init = W.obj_init(ctxo) if ctxo[0] == "obj" else None
            if is_call(init, "Context::new"):
                alg = init[2][0]
                return digest_len(W, ev, alg)
            return None
        if t[1] in W.prog.fns:
            r = ev.inline(t)
            if r != t:
                return bytelen(W, ev, r, depth + 1)
        return None
    return None


def digest_len(W, ev, alg):
    alg = resolve_fields(W, ev, alg)
    if isinstance(alg, tuple) and alg[0] == "static":
        return DIGEST_LEN.get(alg[1])
    if isinstance(alg, tuple) and alg[0] == "phi":
        ls = {digest_len(W, ev, a) for a in alg[1]}
        return ls.pop() if len(ls) == 1 else None
    return None


def resolve_fields(W, ev, t):
    """Resolve field(self, F) through the unique constructor set of self's type (all constructors must agree)."""
    if isinstance(t, tuple) and t and t[0] == "field" and isinstance(t[1], tuple) and t[1][0] == "param":
        fn = W.prog.fns.get(t[1][1])
        if fn is not None and fn.impl_self and t[1][2] == 1:
            adt = fn.impl_self
            vals = []
            for (cfn, bb, idx, fields) in W.ctor_fields(adt):
                if t[2] in fields:
                    vals.append(fields[t[2]])
            uniq = []
            for v in vals:
                if v not in uniq:
                    uniq.append(v)
            if len(uniq) == 1:
                return uniq[0]
            if uniq:
                return ("phi", tuple(uniq))
    return t


def field_under_assumption(W, ev, t):
    """`t` = field(x, F) where ev assumes a value for another field G of the same object (`self.version == V`): the value every constructor
    consistent with that assumption gives to F (a constructor that takes G as a parameter is evaluated with that parameter bound to the
    assumed value).  Used for values fixed at construction from the version, e.g. a cached `hash_len`."""
    if not (isinstance(t, tuple) and t and t[0] == "field"):
        return None
    base, F = t[1], t[2]
    owner = None
    if isinstance(base, tuple) and base and base[0] == "param":
        fn = W.prog.fns.get(base[1])
        if fn is not None and fn.impl_self and base[2] == 1:
            owner = fn.impl_self
    if owner is None:
        return None
    known = {k[2]: v for k, v in (getattr(ev, "assume", None) or {}).items() if isinstance(k, tuple) and k and k[0] == "field" and k[1] == base and k[2] != F}
    if not known:
        return None
    vals = []
    for (cfn, bb, idx, fields) in W.ctor_fields(owner):
        if F not in fields:
            return None
        binds = {}
        consistent = True
        for G, aval in known.items():
            g = fields.get(G)
            if g is None:
                continue
            g = W.expand(g)
            if g == aval:
                continue
            if isinstance(g, tuple) and g and g[0] == "param" and g[1] == cfn.path:
                binds[g[2]] = aval
            elif isinstance(g, tuple) and g and g[0] in ("enum", "int"):
                consistent = False      # this constructor builds a different variant
            else:
                return None
        if not consistent:
            continue
        # evaluate the construction with dead arms removed (a constant version decides a `match version` in an inlined constructor helper)
        e2 = values.Ev(W.prog, cfn, binds=binds)
        e2.live()
        agg = e2.rvalue(cfn.blocks[bb].stmts[idx]["rv"], (bb, idx))
        if not (isinstance(agg, tuple) and agg[0] == "agg" and len(agg) > 3 and agg[3] and F in agg[3]):
            return None
        vals.append(agg[2][agg[3].index(F)])
    uniq = []
    for v in vals:
        if v not in uniq:
            uniq.append(v)
    return uniq[0] if len(uniq) == 1 else None


def intval(W, ev, t, depth=0):
    """Integer value of a term under ev's assumptions (inlines crate-local calls, knows Algorithm::output_len)."""
    if not isinstance(t, tuple) or not t or depth > 8:
        return None
    if t[0] == "int":
        return t[1]
    if t[0] == "field":
        r = field_under_assumption(W, ev, t)
        return intval(W, ev, r, depth + 1) if r is not None and r != t else None
    if t[0] == "cast":
        return intval(W, ev, t[3], depth + 1)
    if t[0] == "phi":
        vs = {intval(W, ev, a, depth + 1) for a in t[1]}
        return vs.pop() if len(vs) == 1 else None
    if t[0] == "bin":
        a, b = intval(W, ev, t[2], depth + 1), intval(W, ev, t[3], depth + 1)
        if a is None or b is None:
            return None
        f = values.fold_bin(t[1], ("int", a), ("int", b))
        return f[1] if f else None
    if t[0] == "len":
        return bytelen(W, ev, t[1], depth + 1)
    if t[0] == "call":
        p = strip_generics(t[1])
        if p.endswith("digest::Algorithm::output_len"):
            return digest_len(W, ev, t[2][0])
        if callee_name(t[1]) == "len" and t[2]:
            return bytelen(W, ev, t[2][0], depth + 1)
        if t[1] in W.prog.fns:
            r = ev.inline(t)
            if r != t:
                return intval(W, ev, r, depth + 1)
    return None


# ------------------------------------------------------------------------------------------------ arithmetic expressions
class NotArith(Exception):
    pass


def arith_eval(t, env):
    """Evaluate an integer-valued term given values for its free leaves (env: term -> int).  Raises NotArith when the
    term contains anything but integer arithmetic.  Used to compare two *extracted expressions* on a grid of inputs
    (expression equivalence), never to run repository code."""
    if t in env:
        return env[t]
    if not isinstance(t, tuple) or not t:
        raise NotArith(str(t))
    k = t[0]
    if k == "int":
        return t[1]
    if k == "cast":
        v = arith_eval(t[3], env)
        rng = values.INT_RANGES.get(t[2])
        if rng is None:
            raise NotArith("cast to " + t[2])
        lo, hi = rng
        return (v - lo) % (hi - lo + 1) + lo
    if k == "bin":
        a, b = arith_eval(t[2], env), arith_eval(t[3], env)
        f = values.fold_bin(t[1], ("int", a), ("int", b))
        if f is None:
            raise NotArith("op " + t[1])
        return f[1]
    if k == "call":
        name = callee_name(t[1])
        args = [arith_eval(a, env) for a in t[2]]
        if name == "pow" and len(args) == 2:
            return args[0] ** args[1]
        if name in ("wrapping_add", "saturating_add", "checked_add") and len(args) == 2:
            return args[0] + args[1]
        if name in ("from", "into") and len(args) == 1:
            return args[0]
        core_int = "core::num" in t[1] or "::num::" in t[1] or "cmp::" in t[1]
        if core_int and len(args) == 2:
            a, b = args
            if name == "div_ceil" and b > 0:
                return -(-a // b)
            if name in ("saturating_sub",):
                return max(a - b, 0)        # unsigned operands (the grids are non-negative)
            if name in ("wrapping_sub", "checked_sub") and a >= b:
                return a - b
            if name in ("wrapping_mul", "saturating_mul", "checked_mul"):
                return a * b
            if name in ("checked_div", "wrapping_div") and b != 0:
                return a // b
            if name in ("checked_rem", "wrapping_rem", "rem_euclid") and b > 0:
                return a % b
            if name == "abs_diff":
                return abs(a - b)
            if name == "min":
                return min(a, b)
            if name == "max":
                return max(a, b)
            if name == "next_multiple_of" and b > 0:
                return -(-a // b) * b
        raise NotArith("call " + t[1])
    if k == "vfield":
        return arith_eval(t[1], env)
    if k == "len" and isinstance(t[1], tuple) and t[1] and t[1][0] == "index" and isinstance(t[1][2], tuple) and t[1][2][0] == "agg":
        # length of a sub-slice in terms of the length of the whole
        lab = str(t[1][2][1])
        ops = [arith_eval(o, env) for o in t[1][2][2]]
        if lab.endswith("RangeTo::RangeTo"):
            return ops[0]
        if lab.endswith("Range::Range"):
            return ops[1] - ops[0]
        if lab.endswith("RangeFrom::RangeFrom"):
            return arith_eval(("len", t[1][1]), env) - ops[0]
        raise NotArith("len of " + lab)
    if k == "len" and isinstance(t[1], tuple) and t[1] and t[1][0] in ("call", "reader", "vfield"):
        # number of items of an iterator chain / collected vector in terms of the length of what it iterates
        x = t[1]
        while isinstance(x, tuple) and x and x[0] in ("reader", "vfield"):
            x = x[1]
        if x[0] == "call":
            name = callee_name(x[1])
            if name in ("collect", "map", "into_iter", "iter", "iter_mut", "cloned", "copied", "enumerate", "rev", "by_ref", "to_vec", "into_vec", "inspect", "peekable") and x[2]:
                return arith_eval(("len", x[2][0]), env)
            if name in ("chunks_exact", "chunks", "rchunks_exact") and len(x[2]) == 2:
                n, c = arith_eval(("len", x[2][0]), env), arith_eval(x[2][1], env)
                if c <= 0:
                    raise NotArith("chunk size")
                return n // c if name != "chunks" else -(-n // c)
            if name == "take" and len(x[2]) == 2:
                return min(arith_eval(("len", x[2][0]), env), arith_eval(x[2][1], env))
            if name == "skip" and len(x[2]) == 2:
                return max(arith_eval(("len", x[2][0]), env) - arith_eval(x[2][1], env), 0)
            if name == "zip" and len(x[2]) == 2:
                return min(arith_eval(("len", x[2][0]), env), arith_eval(("len", x[2][1]), env))
        raise NotArith("len of " + str(x[:2]))
    if k == "phi":
        vs = {arith_eval(a, env) for a in t[1]}
        if len(vs) == 1:
            return vs.pop()
        raise NotArith("phi")
    raise NotArith(k)


# ------------------------------------------------------------------------------------------------ acceptance tables
def rel_holds(rel, env):
    """Truth of a relational fact under env, or None if it mentions anything outside env / non-arithmetic."""
    op, a, b = rel
    if op in ("True", "False") and is_call(a) and callee_name(a[1]) == "contains" and len(a[2]) == 2 and isinstance(a[2][0], tuple):
        # (lo..hi).contains(&x) / (lo..=hi).contains(&x)
        rng = a[2][0]
        while isinstance(rng, tuple) and rng and rng[0] == "reader":
            rng = rng[1]
        if rng[0] == "agg" and "Range" in str(rng[1]) and len(rng[2]) >= 2:
            try:
                lo, hi, x = arith_eval(rng[2][0], env), arith_eval(rng[2][1], env), arith_eval(a[2][1], env)
            except NotArith:
                return None
            inside = lo <= x <= hi if "Inclusive" in str(rng[1]) else lo <= x < hi
            return inside if op == "True" else not inside
        return None
    if op not in ("Lt", "Le", "Eq", "Ne"):
        return None
    try:
        x, y = arith_eval(a, env), arith_eval(b, env)
    except NotArith:
        return None
    return {"Lt": x < y, "Le": x <= y, "Eq": x == y, "Ne": x != y}[op]


def acceptance_mismatch(rels, roles, grid, reference):
    """Compare the conjunction of the branch facts that only mention the role variables with a reference predicate on a
    grid of assignments.  roles: name -> term; grid: iterable of dicts name -> int; reference(**assignment) -> bool.
    The reference may answer None (don't care) where a different guard decides the point.
    Returns None when they agree everywhere, else a description of the first disagreement."""
    used = 0
    for point in grid:
        env = {roles[k]: v for k, v in point.items()}
        acc = True
        for rel in rels:
            h = rel_holds(rel, env)
            if h is None:
                continue
            used += 1
            if not h:
                acc = False
                break
        want = reference(**point)
        if want is None:  # don't care: another guard decides this point
            continue
        want = bool(want)
        if acc != want:
            return "at %s the code %s but the reference %s" % (point, "accepts" if acc else "rejects", "accepts" if want else "rejects")
    if used == 0:
        return "no branch fact mentions the checked quantities (guard missing?)"
    return None


def rejection_witness(rels, roles, grid, consistent):
    """For an error-producing site: is there a grid point that satisfies every evaluable fact of the path condition although the reference
    still accepts such inputs (`consistent`)?  Returns (point or None, number of evaluable facts)."""
    used = 0
    for point in grid:
        env = {roles[k]: v for k, v in point.items()}
        holds = True
        for rel in rels:
            h = rel_holds(rel, env)
            if h is None:
                continue
            used += 1
            if not h:
                holds = False
                break
        if holds and consistent(**point):
            return point, used
    return None, used


# ------------------------------------------------------------------------------------------------ container invariants
SHRINKERS = ("clear", "pop", "truncate", "remove", "swap_remove", "drain", "retain", "split_off", "dedup", "take", "replace",
             "set_len", "resize", "shrink_to", "pop_front", "pop_back", "retain_mut", "drain_filter", "extract_if")


def field_min_len(W, adt, field):
    """Lower bound on the length of a Vec-typed private field that holds in every state: the minimum over all constructors of the
    initial length, provided no function applies a shrinking operation to the field itself (elements may be cleared).
    Returns (min_len, why) or (0, why)."""
    import re
    P = W.prog
    a = P.adts.get(adt)
    if a is None:
        return 0, "unknown type"
    f = [x for x in a["variants"][0]["fields"] if x["name"] == field]
    if not f or f[0]["vis"] == "pub":
        return 0, "field is public"
    cs = W.ctor_fields(adt)
    if not cs:
        return 0, "no constructor found"
    lens = []
    for (fn, bb, idx, fields) in cs:
        t = fields.get(field)
        n = None
        if is_call(t) and callee_name(t[1]) in ("box_assume_init_into_vec_unsafe", "into_vec"):
            site = t[3]
            sfn = P.fns[site[0]]
            aty = sfn.blocks[site[1]].term["arg_tys"][0]
            m = re.search(r"; (\d+)\]", aty)
            if m:
                n = int(m.group(1))
        elif is_call(t) and callee_name(t[1]) == "from_elem":
            if t[2][1][0] == "int":
                n = t[2][1][1]
        if n is None:
            n = 0
        lens.append(n)
    # shrinking operations applied to the field itself, anywhere in the crate
    for fn in P.fns.values():
        if fn.impl_self != adt and adt.rsplit("::", 1)[0] not in fn.path:
            continue
        ev = W.ev(fn.path)
        for b, t in fn.calls():
            if not t["args"] or not t["arg_tys"][0].startswith("&mut"):
                continue
            ap = ev.arg_path(t["args"][0])
            if ap and ap[1] == (field,) and callee_name(t["fn"].get("path", "")) in SHRINKERS:
                base_ty = fn.locals[ap[0]]["ty"]
                if adt.split("::")[-1] in base_ty:
                    return 0, "%s applies %s to the field" % (fn.path, callee_name(t["fn"]["path"]))
        for bl in fn.blocks:
            for st in bl.stmts:
                if st["k"] == "assign" and st["dst"].get("p"):
                    pj = [e for e in st["dst"]["p"] if isinstance(e, dict) and "f" in e]
                    if pj and pj[-1].get("name") == field and pj[-1].get("adt") == adt:
                        return 0, "%s assigns the field" % fn.path
    return min(lens), "initialised with >= %d element(s) by every constructor and never shrunk" % min(lens)


# ------------------------------------------------------------------------------------------------ effects (T-effect)
EFFECT_CLASSES = {
    "randomness": ("rand::", "rand_core::", "ring::rand", "getrandom::", "SystemRandom", "thread_rng", "from_entropy", "OsRng"),
    "clock": ("SystemTime::now", "Instant::now", "chrono::offset::utc::Utc::now", "chrono::offset::local::Local::now", "time::Instant"),
    "environment": ("std::env::", "std::fs::", "std::net::", "mio::"),
    "thread": ("std::thread::current", "std::thread::spawn", "std::thread::Builder"),
}


def effects_of(prog, roots, classes=None):
    """{class: [(external callee, call chain)]} for everything reachable from roots."""
    reach, ext, parent = prog.reach(roots)
    out = {}
    for e in sorted(ext):
        for cls, pats in EFFECT_CLASSES.items():
            if classes and cls not in classes:
                continue
            if any(p in e for p in pats):
                out.setdefault(cls, []).append((e, prog.chain(parent, e)))
    return out, reach, ext


OPTION_RESULT_CONV = ("ok_or", "ok_or_else", "ok", "err")


def through_conversions(t):
    """Strip Option<->Result conversions (`ok_or`, `ok_or_else`, `ok`) from a term: returns (inner term, number of conversions).  Each
    conversion swaps the index of the "present" variant (Some = 1, Ok = 0)."""
    n = 0
    t = values.strip_payload(t)
    while is_call(t) and callee_name(t[1]) in ("ok_or", "ok_or_else", "ok", "map_err") and t[2] and ("option::Option" in t[1] or "result::Result" in t[1]):
        if callee_name(t[1]) != "map_err":      # map_err keeps Ok as Ok: no swap of the "present" variant
            n += 1
        t = values.strip_payload(t[2][0])
    return t, n


def payload_source(t):
    """The Option/Result value whose payload `t` is (looking through payload selection and Option<->Result conversions)."""
    return through_conversions(t)[0]


def fact_is_present(rels, pred, variant_index=1):
    """Some branch fact establishes that the Option/Result value selected by pred(term) is Some (variant 1) / Ok (variant 0):
    via is_some()/is_ok(), the negation of is_none()/is_err(), a match / let-else on the discriminant, or `value.ok_or(e)?` and the like."""
    for r in rels:
        if r[0] == "Pred" and r[1] in ("is_some", "is_ok") and pred(through_conversions(r[2])[0]):
            return True
        if r[0] in ("Eq", "Ne") and isinstance(r[1], tuple) and r[1][0] == "discr" and isinstance(r[2], tuple) and r[2][0] == "int":
            inner, n = through_conversions(r[1][1])
            if not pred(inner):
                continue
            vi = variant_index if n % 2 == 0 else 1 - variant_index
            if (r[0] == "Eq" and r[2][1] == vi) or (r[0] == "Ne" and r[2][1] == 1 - vi):
                return True
    return False


def fact_is_absent(rels, pred, variant_index=1):
    for r in rels:
        if r[0] == "NotPred" and r[1] in ("is_some", "is_ok") and pred(through_conversions(r[2])[0]):
            return True
        if r[0] in ("Eq", "Ne") and isinstance(r[1], tuple) and r[1][0] == "discr" and isinstance(r[2], tuple) and r[2][0] == "int":
            inner, n = through_conversions(r[1][1])
            if not pred(inner):
                continue
            vi = variant_index if n % 2 == 0 else 1 - variant_index
            if (r[0] == "Eq" and r[2][1] == 1 - vi) or (r[0] == "Ne" and r[2][1] == vi):
                return True
    return False


def relational_deep(W, fact, depth=0):
    """flow.relational, additionally looking through crate-local boolean helper functions: a branch on `helper(a, b)` is
    interpreted through the helper's return term with its parameters bound (so `fn same(a,b)->bool {a == b}` is an equality)."""
    import flow
    out = []
    # `opt.is_some_and(|v| pred(v))` taken: opt is Some and pred(payload) holds (the closure applied to the payload, captures bound)
    if fact[0] in ("eq", "ne") and isinstance(fact[2], bool) and is_call(fact[1]) and callee_name(fact[1][1]) in ("is_some_and", "is_ok_and") and len(fact[1][2]) == 2 \
            and (fact[2] if fact[0] == "eq" else not fact[2]) and depth < 3:
        opt, clo = fact[1][2]
        if isinstance(clo, tuple) and clo and clo[0] == "closure" and clo[1] in W.prog.fns:
            site = fact[1][3] if len(fact[1]) > 3 else None
            host = W.ev(site[0]) if site and site[0] in W.prog.fns else None
            ret = host.apply_closure(clo, [host.payload_term(opt)]) if host is not None else None
            if ret is not None:
                inner = relational_deep(W, ("eq", ret, True), depth + 1)
                if inner:
                    return inner + [("Pred", "is_some", opt)]
    for r in flow.relational(fact):
        if r[0] in ("True", "False") and is_call(r[1]) and r[1][1] in W.prog.fns and depth < 3:
            callee = r[1][1]
            ret = W.bind_params(W.ev(callee).ret(), callee, list(r[1][2]))
            inner = relational_deep(W, ("eq", ret, r[0] == "True"), depth + 1)
            if inner and not all(x[0] in ("True", "False") for x in inner):
                out.extend(inner)
                continue
        out.append(r)
    return out


def signer_pubkey(W, t, check_body=True):
    """If `t` is the public key bytes of a MsgSigner, the signer term: `S.public_key_bytes()` (whose body is itself of the second form, checked
    once per run by C10) or `S.signing_key.verifying_key()` rendered with to_bytes / as_bytes / to_vec."""
    t = values.strip_payload(W.expand(t))
    for _ in range(6):
        if is_call(t) and callee_name(t[1]) in ("to_vec", "as_bytes", "to_bytes", "as_ref", "as_slice", "deref", "into", "clone", "borrow", "to_owned") and t[2]:
            t = values.strip_payload(W.expand(t[2][0]))
        elif isinstance(t, tuple) and t and t[0] == "index" and t[2][0] == "agg" and str(t[2][1]).endswith("RangeFull::RangeFull"):
            t = values.strip_payload(W.expand(t[1]))
        else:
            break
    if is_call(t, "MsgSigner::public_key_bytes") and t[2]:
        return t[2][0]
    if is_call(t) and t[2] and t[1] in W.prog.fns and W.prog.fns[t[1]].impl_self == "roughenough::sign::MsgSigner" and check_body:
        # another accessor of MsgSigner whose body returns the verifying key of self (`public_key_array()`)
        inner = signer_pubkey(W, W.ev(t[1]).ret(), check_body=False)
        if inner == ("param", t[1], 1):
            return t[2][0]
    if isinstance(t, tuple) and t and t[0] == "field":
        # a copy of the public key kept in a field that only the constructor sets, computed there from the very key stored in `signing_key`
        SG = "roughenough::sign::MsgSigner"
        ctors = W.ctor_fields(SG)
        if ctors and all(t[2] in f for (_, _, _, f) in ctors) and field_set_only_at_construction(W, SG, t[2]) and field_set_only_at_construction(W, SG, "signing_key"):
            good = True
            for (cfn, bb, idx, f) in ctors:
                v = values.strip_payload(W.expand(f[t[2]]))
                for _ in range(4):
                    if is_call(v) and callee_name(v[1]) in ("to_vec", "as_bytes", "to_bytes", "as_ref", "into", "clone") and v[2]:
                        v = values.strip_payload(W.expand(v[2][0]))
                if not (is_call(v) and callee_name(v[1]) == "verifying_key" and "SigningKey" in v[1] and v[2] and
                        values.strip_payload(W.expand(v[2][0])) == values.strip_payload(W.expand(f.get("signing_key")))):
                    good = False
            if good:
                return t[1]
    if is_call(t) and callee_name(t[1]) == "verifying_key" and "SigningKey" in t[1] and t[2]:
        k = values.strip_payload(W.expand(t[2][0]))
        if isinstance(k, tuple) and k and k[0] == "field" and k[2] == "signing_key":
            return k[1]
    if is_call(t) and callee_name(t[1]) == "from" and "VerifyingKey" in t[1] and t[2]:
        k = values.strip_payload(W.expand(t[2][0]))
        if isinstance(k, tuple) and k and k[0] == "field" and k[2] == "signing_key":
            return k[1]
    return None


def _inline_site_args(fn, ev, site):
    """Argument terms of an inlined helper call (the parameter-binding assignments left in the block that held the call)."""
    b = site["call_block"]
    out = []
    for i, st in enumerate(fn.blocks[b].stmts):
        if st.get("inline_bind") and site["local_offset"] < st["dst"]["l"] <= site["local_offset"] + site["nargs"]:
            out.append((st["dst"]["l"] - site["local_offset"], ev.op(st["rv"]["op"], (b, i))))
    out.sort()
    return [t for _, t in out]


def outparam_wrapper_value(W, fn, ev, obj, use_bb):
    """`obj` is a buffer filled through an out-parameter helper H(args.., &mut obj) that did not exist on the reference tree, and a reference
    function R has become the thin wrapper `R(args..) = { let mut v = Vec::new(); H(args.., &mut v); v }`.  If, at use_bb, obj holds exactly
    what one call of H appended to an empty buffer (emptied by clear() / created in this iteration, nothing else appended), the value is
    R(args..): returns that call term, else None."""
    P = W.prog
    if not (isinstance(obj, tuple) and obj and obj[0] == "obj" and obj[1] == fn.path):
        return None
    sites = fn.j.get("inline_sites") or []
    for S in sites:
        H = S["helper"]
        region = set(range(S["first_block"], S["first_block"] + S["nblocks"]))
        a = _inline_site_args(fn, ev, S)
        outpos = [i for i, t in enumerate(a) if values.strip_payload(t) == obj]
        if len(outpos) != 1:
            continue
        # the reference function that wraps H
        R = None
        for rp, hs in P.inlined.items():
            rf = P.fns.get(rp)
            if rf is None or rp == fn.path or H not in hs or rf.loops() is None:
                continue
            rev = W.ev(rp)
            for S2 in rf.j.get("inline_sites") or []:
                if S2["helper"] != H:
                    continue
                a2 = _inline_site_args(rf, rev, S2)
                ret = values.strip_payload(rev.ret())
                if not (isinstance(ret, tuple) and ret and ret[0] == "obj" and len(a2) == len(a)):
                    continue
                init = W.obj_init(ret)
                if not (is_call(init) and callee_name(init[1]) in ("new", "with_capacity") and "Vec" in init[1]):
                    continue
                reg2 = set(range(S2["first_block"], S2["first_block"] + S2["nblocks"]))
                ev_ok = all(b in reg2 for (b, callee, argi, ap) in rev.events_on(ret[2]) if rf.blocks[b].term["arg_tys"][argi].startswith("&mut"))
                params_ok = all((values.strip_payload(t) == ret) if i == outpos[0] else (t == ("param", rp, i + 1)) for i, t in enumerate(a2))
                if ev_ok and params_ok:
                    R = rp
        if R is None:
            continue
        # history of obj in fn up to the use
        muts = [(b, callee_name(callee)) for (b, callee, argi, ap) in ev.events_on(obj[2]) if fn.blocks[b].term["arg_tys"][argi].startswith("&mut")]
        outside = [(b, nm) for (b, nm) in muts if b not in region]
        clears = [b for (b, nm) in outside if nm == "clear" or (nm == "truncate" and ev.call_args(b)[1] == ("int", 0))]
        others = [(b, nm) for (b, nm) in outside if b not in clears and nm not in ("reserve", "reserve_exact", "shrink_to_fit", "shrink_to")]
        if others:
            continue
        cb = S["call_block"]
        if not fn.dominates(cb, use_bb):
            continue
        loops_use = {l["header"] for l in fn.in_loop(use_bb)}
        inits = ev.obj_init(obj[2])
        emptied = False
        if len(clears) == 1 and fn.dominates(clears[0], cb) and {l["header"] for l in fn.in_loop(clears[0])} == loops_use:
            emptied = True      # cleared in the same iteration, before the helper runs
        elif not clears and len(inits) == 1 and {l["header"] for l in fn.in_loop(inits[0][0])} == loops_use and \
                is_call(inits[0][1]) and callee_name(inits[0][1][1]) in ("new", "with_capacity"):
            emptied = True      # a fresh buffer per iteration
        if not emptied and not clears:
            # the helper empties the buffer itself before filling it: a clear() inside the inlined region that precedes every append there
            inreg = [(b, nm) for (b, nm) in muts if b in region]
            rc = [b for (b, nm) in inreg if nm == "clear" or (nm == "truncate" and ev.call_args(b)[1] == ("int", 0))]
            if len(rc) == 1 and all(fn.dominates(rc[0], b) for (b, nm) in inreg if b != rc[0]):
                emptied = True
        if not emptied:
            continue
        args = tuple(t for i, t in enumerate(a) if i != outpos[0])
        return ("call", R, args, (fn.path, cb))
    return None


def const_bytes(W, t, depth=0):
    """The byte string a term certainly denotes, or None: a byte literal, `[v; n]`, `x.to_le_bytes()` / `to_be_bytes()` of an integer constant
    (u64::MIN, u64::MAX ..), a constant item, or an object initialised with one of these and never written afterwards."""
    if not isinstance(t, tuple) or not t or depth > 5:
        return None
    t = values.strip_payload(t)
    if t[0] == "bytes":
        return bytes(t[1])
    if t[0] == "repeat" and isinstance(t[1], tuple) and t[1][0] == "int" and isinstance(t[2], int) and 0 <= t[1][1] < 256:
        return bytes([t[1][1]]) * t[2]
    if t[0] == "obj":
        return const_bytes(W, W.frozen_init(t), depth + 1)
    if t[0] == "agg" and t[1] == "array" and all(isinstance(x, tuple) and x[0] == "int" and 0 <= x[1] < 256 for x in t[2]):
        return bytes(x[1] for x in t[2])
    if is_call(t):
        nm = callee_name(t[1])
        if nm in ("to_le_bytes", "to_be_bytes") and t[2] and isinstance(t[2][0], tuple) and t[2][0][0] == "int":
            w = le_written(W, t)
            if w and w.get("width"):
                try:
                    return int(t[2][0][1]).to_bytes(w["width"], "little" if nm == "to_le_bytes" else "big", signed=bool(w.get("signed")))
                except OverflowError:
                    return None
        if nm in values.VIEW_NAMES + ("to_vec", "to_owned", "clone", "into") and t[2]:
            return const_bytes(W, W.expand(t[2][0]), depth + 1)
    e = W.expand(t)
    if e != t:
        return const_bytes(W, e, depth + 1)
    return None


def array_copy_source(W, obj):
    """`obj` is a zero-initialised array that is overwritten as a whole by exactly one copy_from_slice / clone_from_slice and never written
    otherwise: returns the source term (the copy has the source's bytes; copy_from_slice panics unless the lengths agree), else None."""
    if not (isinstance(obj, tuple) and obj and obj[0] == "obj"):
        return None
    init = W.obj_init(obj)
    if not (isinstance(init, tuple) and init and init[0] == "repeat"):
        return None
    ev = W.ev(obj[1])
    fn = ev.fn
    muts = [(b, callee_name(callee), argi) for (b, callee, argi, ap) in ev.events_on(obj[2]) if fn.blocks[b].term["arg_tys"][argi].startswith("&mut")]
    if len(muts) != 1 or muts[0][1] not in ("copy_from_slice", "clone_from_slice") or muts[0][2] != 0:
        return None
    if any(k == "partial" for (b, i, k) in fn.defs().get(obj[2], [])):
        return None
    a = ev.call_args(muts[0][0])
    if values.strip_payload(a[0]) != obj:
        return None     # only part of the array is written
    return a[1]


def field_set_only_at_construction(W, adt, field):
    """True when the (private) field is never assigned or mutably borrowed outside the aggregate expressions that construct the type."""
    P = W.prog
    cache = W.__dict__.setdefault("_field_const", {})
    if (adt, field) in cache:
        return cache[(adt, field)]
    a = P.adts.get(adt)
    ok = a is not None and bool(a.get("variants"))
    if ok:
        fl = [x for x in a["variants"][0]["fields"] if x["name"] == field]
        ok = bool(fl) and fl[0]["vis"] != "pub"
    if ok:
        for fn in P.fns.values():
            if fn.derived or not ok:
                continue
            for bl in fn.blocks:
                for st in bl.stmts:
                    if st["k"] != "assign":
                        continue
                    pj = [e for e in st["dst"].get("p", []) if isinstance(e, dict) and "f" in e]
                    if pj and pj[-1].get("name") == field and pj[-1].get("adt") == adt:
                        ok = False
                    rv = st["rv"]
                    if rv["k"] in ("ref", "rawptr") and (rv.get("mut") or rv["k"] == "rawptr"):
                        if any(isinstance(e, dict) and e.get("name") == field and e.get("adt") == adt for e in rv["place"].get("p", [])):
                            ok = False
    cache[(adt, field)] = ok
    return ok


def immutable_field_ints(W, adt, field):
    """Integer values a private field can hold when it is only ever set by the constructors of its type (never assigned or mutably borrowed
    afterwards) and every constructor gives it a value that evaluates to an integer: sorted list, else None."""
    P = W.prog
    cache = W.__dict__.setdefault("_imm_field_ints", {})
    if (adt, field) in cache:
        return cache[(adt, field)]
    cache[(adt, field)] = None
    a = P.adts.get(adt)
    if a is None or not a.get("variants"):
        return None
    fl = [x for x in a["variants"][0]["fields"] if x["name"] == field]
    if not fl or fl[0]["vis"] == "pub":
        return None
    for fn in P.fns.values():
        if fn.derived:
            continue
        for bl in fn.blocks:
            for st in bl.stmts:
                if st["k"] != "assign":
                    continue
                pj = [e for e in st["dst"].get("p", []) if isinstance(e, dict) and "f" in e]
                if pj and pj[-1].get("name") == field and pj[-1].get("adt") == adt:
                    return None
                rv = st["rv"]
                if rv["k"] in ("ref", "rawptr") and (rv.get("mut") or rv["k"] == "rawptr"):
                    if any(isinstance(e, dict) and e.get("name") == field and e.get("adt") == adt for e in rv["place"].get("p", [])):
                        return None
    vals = set()
    ctors = W.ctor_fields(adt)
    if not ctors:
        return None
    for (cfn, bb, idx, fields) in ctors:
        e2 = values.Ev(P, cfn)
        e2.live()
        agg = e2.rvalue(cfn.blocks[bb].stmts[idx]["rv"], (bb, idx))
        if not (isinstance(agg, tuple) and agg[0] == "agg" and len(agg) > 3 and agg[3] and field in agg[3]):
            return None
        t = agg[2][agg[3].index(field)]
        alts = t[1] if isinstance(t, tuple) and t and t[0] == "phi" else (t,)
        for x in alts:
            n = intval(W, e2, x)
            if n is None:
                return None
            vals.add(n)
    cache[(adt, field)] = sorted(vals)
    return cache[(adt, field)]


def duration_ms(W, t):
    """Milliseconds of a constant std::time::Duration term: `Duration::from_millis/from_secs/from_micros/from_nanos(k)`, `Duration::new(s, n)`, or
    a Duration constant evaluated by the compiler (`const T: Duration = Duration::from_millis(100)`).  None when not a constant."""
    t = values.strip_payload(W.expand(t)) if isinstance(t, tuple) else t
    if not isinstance(t, tuple) or not t:
        return None
    if is_call(t) and "Duration" in t[1] and t[2] and all(isinstance(x, tuple) and x[0] == "int" for x in t[2]):
        nm = callee_name(t[1])
        k = t[2][0][1]
        if nm in ("from_millis", "from_secs", "from_micros", "from_nanos"):
            return k * {"from_millis": 1, "from_secs": 1000, "from_micros": 0.001, "from_nanos": 0.000001}[nm]
        if nm == "new" and len(t[2]) == 2:
            return k * 1000 + t[2][1][1] / 1e6
    if t[0] == "agg" and str(t[1]).endswith("Duration") or (t[0] == "agg" and "time::Duration" in str(t[1])):
        ops = t[2]
        if len(ops) == 2 and isinstance(ops[0], tuple) and ops[0][0] == "int":
            n = ops[1]
            while isinstance(n, tuple) and n and n[0] == "agg" and len(n[2]) == 1:
                n = n[2][0]
            if isinstance(n, tuple) and n[0] == "int":
                return ops[0][1] * 1000 + n[1] / 1e6
    return None


def closure_env_terms(W, cpath):
    """For a closure function: {('field', env param, 'i'): term of the captured value as the creating function sees it} (empty for non-closures or
    when the creation site is not found)."""
    P = W.prog
    if "{closure" not in cpath:
        return {}
    out = {}
    for (o, bb) in P.closure_sites(cpath) or []:
        oev = W.ev(o.path)
        for a in oev.call_args(bb):
            if isinstance(a, tuple) and a and a[0] == "closure" and a[1] == cpath:
                for i, u in enumerate(a[2]):
                    out[("field", ("param", cpath, 1), str(i))] = W.expand(u)
                    out[("field", ("obj", cpath, 1), str(i))] = W.expand(u)     # a by-value environment that the closure mutates
    return out


def counted_trips(W, ev, fn, L):
    """Trip count of a counter-driven loop (Fn.counted_loop) as (init term, bound term, count) where count(f) evaluates the number of times the
    body is entered given f: term -> int | None.  None when the loop is not of that shape or the test does not bound the counter in its direction."""
    cl = fn.counted_loop(L)
    if cl is None:
        return None
    ib, ii = cl["init"]
    init = W.expand(ev.rvalue(fn.blocks[ib].stmts[ii]["rv"], (ib, ii)))
    bound = W.expand(ev.op(cl["bound"], (cl["test"], len(fn.blocks[cl["test"]].stmts))))
    op = cl["cmp"]
    if not cl["stay_when_true"]:
        op = {"Lt": "Ge", "Le": "Gt", "Gt": "Le", "Ge": "Lt", "Ne": "Eq", "Eq": "Ne"}[op]
    # op is now the condition `counter <op> bound` under which the loop goes on
    step = cl["step"]
    if (step, op) not in ((1, "Lt"), (1, "Le"), (1, "Ne"), (-1, "Gt"), (-1, "Ge"), (-1, "Ne")):
        return None

    def count(f):
        i, b = f(init), f(bound)
        if i is None or b is None:
            return None
        if step == 1:
            if op == "Ne" and i > b:
                return None
            return max(b - i + (1 if op == "Le" else 0), 0)
        if op == "Ne" and i < b:
            return None
        return max(i - b + (1 if op == "Ge" else 0), 0)
    return {"init": init, "bound": bound, "count": count, "step": step, "op": op, "info": cl}


def field_replacement_sites(W, adt, field):
    """Sites where the value stored in `adt.field` can be replaced as a whole after construction: an assignment to the field, or a mutable
    borrow of exactly that field that goes anywhere else than into the receiver position of a method of the field's own (crate-local) type.
    Returns [(fn, block, description)]; construction (struct literals) does not count."""
    P = W.prog
    a = P.adts.get(adt)
    fty = None
    if a and a.get("variants"):
        for x in a["variants"][0]["fields"]:
            if x["name"] == field:
                fty = x.get("ty", "")
    out = []

    def is_field(e):
        return isinstance(e, dict) and e.get("name") == field and e.get("adt") == adt

    def mentions(j, l):
        if isinstance(j, dict):
            if j.get("l") == l and "k" not in j:
                return 1 + sum(mentions(v, l) for k, v in j.items() if k != "l")
            return sum(mentions(v, l) for v in j.values())
        if isinstance(j, list):
            return sum(mentions(v, l) for v in j)
        return 0

    def receiver_only(fn, l, depth=0):
        """every use of local l is the receiver of a method of the field's type (or a reborrow used that way)"""
        if depth > 4:
            return False
        for bl in fn.blocks:
            if bl.idx not in fn.reachable():
                continue
            for st in bl.stmts:
                if st["k"] in ("storage_live", "storage_dead", "nop"):
                    continue
                n = mentions(st, l)
                if not n:
                    continue
                if st["k"] == "assign" and st["dst"].get("l") == l and not st["dst"].get("p"):
                    if mentions(st["rv"], l):
                        return False
                    continue
                rv = st.get("rv", {}) if st["k"] == "assign" else {}
                if st["k"] == "assign" and rv.get("k") == "ref" and not rv.get("mut") and rv.get("place", {}).get("l") == l and (rv["place"].get("p") or [None])[0] == "deref":
                    continue        # a shared reborrow (of the value or of a part of it): nothing can be replaced through it
                if st["k"] == "assign" and rv.get("k") == "ref" and rv.get("place", {}).get("l") == l and rv["place"].get("p") == ["deref"] and not st["dst"].get("p"):
                    if not receiver_only(fn, st["dst"]["l"], depth + 1):
                        return False
                    continue
                if st["k"] == "assign" and rv.get("k") == "use" and not st["dst"].get("p") and mentions(rv, l) == 1 and not (rv.get("op", {}).get("mv") or rv.get("op", {}).get("cp") or {}).get("p"):
                    if not receiver_only(fn, st["dst"]["l"], depth + 1):
                        return False
                    continue
                return False
            t = bl.term
            n = mentions(t, l)
            if not n:
                continue
            if t["k"] == "drop":
                continue
            if t["k"] != "call" or n != 1:
                return False
            a0 = t["args"][0] if t.get("args") else None
            op = (a0.get("mv") or a0.get("cp")) if isinstance(a0, dict) else None
            if not op or op.get("l") != l or op.get("p"):
                return False
            tg = P.call_targets(t)
            if not tg or not all(p in P.fns and P.fns[p].impl_self == fty for p in tg):
                return False
        return True

    for fn in P.fns.values():
        if fn.derived:
            continue
        for bl in fn.blocks:
            if bl.idx not in fn.reachable():
                continue
            for st in bl.stmts:
                if st["k"] != "assign":
                    continue
                pj = st["dst"].get("p", [])
                if pj and is_field(pj[-1]):
                    out.append((fn, bl.idx, "%s.%s is assigned in %s" % (adt.split("::")[-1], field, fn.path.split("::", 1)[-1])))
                rv = st["rv"]
                if rv["k"] in ("ref", "rawptr") and (rv.get("mut") or rv["k"] == "rawptr"):
                    pp = rv["place"].get("p", [])
                    if pp and is_field(pp[-1]):
                        if rv["k"] == "rawptr" or st["dst"].get("p") or not receiver_only(fn, st["dst"]["l"]):
                            out.append((fn, bl.idx, "%s.%s is mutably borrowed in %s by something other than a method of %s" % (
                                adt.split("::")[-1], field, fn.path.split("::", 1)[-1], (fty or "?").split("::")[-1])))
            t = bl.term
            if t["k"] == "call" and t.get("dst"):
                pj = t["dst"].get("p", [])
                if pj and is_field(pj[-1]):
                    out.append((fn, bl.idx, "%s.%s is assigned the result of a call in %s" % (adt.split("::")[-1], field, fn.path.split("::", 1)[-1])))
    return out


def flat_const_range(W, t):
    """(base, lo, hi|None) of nested constant slicings `b[a..c][d..]`, `b[..c][d..e]`, `b.split_at(k).0[d..]`: the same bytes of b."""
    t = values.strip_payload(t)
    if isinstance(t, tuple) and t and t[0] in ("field", "vfield") and isinstance(t[1], tuple) and is_call(values.strip_payload(t[1])) and \
            callee_name(values.strip_payload(t[1])[1]) in ("split_at", "split_at_checked") and len(values.strip_payload(t[1])[2]) == 2:
        c = values.strip_payload(t[1])
        k = c[2][1]
        which = str(t[-1])
        if isinstance(k, tuple) and k[0] == "int" and which in ("0", "1"):
            base, lo, hi = flat_const_range(W, W.expand(c[2][0]))
            return (base, lo, lo + k[1]) if which == "0" else (base, lo + k[1], hi)
    if not (isinstance(t, tuple) and t and t[0] == "index" and isinstance(t[2], tuple) and t[2][0] == "agg"):
        return (t, 0, None)
    base, lo, hi = flat_const_range(W, W.expand(t[1]))
    lab, ops = str(t[2][1]), t[2][2]
    if not all(isinstance(o, tuple) and o[0] == "int" for o in ops):
        return (t, 0, None)
    if lab.endswith("Range::Range"):
        a, c = ops[0][1], ops[1][1]
    elif lab.endswith("RangeFrom::RangeFrom"):
        a, c = ops[0][1], None
    elif lab.endswith("RangeTo::RangeTo"):
        a, c = 0, ops[0][1]
    else:
        return (t, 0, None)
    return (base, lo + a, (lo + c) if c is not None else hi)
