"""Shared semantic helpers used by several rule modules."""
from mir import strip_generics, AnchorMissing
import values
from values import Ev, fmt

TAG = "roughenough::tag::Tag"
VERSION = "roughenough::version::Version"
VERSIONS = ("Google", "RfcDraft13")

APPENDERS = ("extend_from_slice", "extend", "push", "write_all", "push_str", "append")


def callee_name(p):
    return strip_generics(p).split("::")[-1]


def is_call(t, suffix=None):
    if not (isinstance(t, tuple) and t and t[0] == "call"):
        return False
    if suffix is None:
        return True
    p = strip_generics(t[1])
    return p == suffix or p.endswith("::" + suffix)


class World:
    """Cross-function helpers: cached evaluators, constructor field maps, object histories."""

    def __init__(self, ctx):
        self.ctx = ctx
        self.prog = ctx.prog
        self._ev = {}
        self._ctor = {}

    def ev(self, fnpath):
        if fnpath not in self._ev:
            fn = self.prog.fns.get(fnpath)
            if fn is None:
                raise AnchorMissing("function " + fnpath)
            self.ctx.touched.add(fnpath)
            self._ev[fnpath] = Ev(self.prog, fn)
        return self._ev[fnpath]

    # ---- struct constructors
    def constructions(self, adt):
        """All aggregate constructions of `adt` in the program: [(fn, bb, idx, {field: term})]"""
        out = []
        for fn in self.prog.fns.values():
            for bl in fn.blocks:
                if bl.idx not in fn.reachable():
                    continue
                for i, st in enumerate(bl.stmts):
                    if st["k"] == "assign" and st["rv"]["k"] == "agg" and st["rv"].get("ak") == "adt" and st["rv"]["adt"] == adt:
                        ev = self.ev(fn.path)
                        t = ev.rvalue(st["rv"], (bl.idx, i))
                        fields = {}
                        if t[0] == "agg" and len(t) > 3 and t[3]:
                            fields = dict(zip(t[3], t[2]))
                        out.append((fn, bl.idx, i, fields))
        return out

    def ctor_fields(self, adt):
        if adt not in self._ctor:
            cs = self.constructions(adt)
            self._ctor[adt] = cs
        return self._ctor[adt]

    # ---- objects
    def obj_init(self, t):
        """Initial value of an ('obj', fn, l) term if it has exactly one whole definition."""
        if not (isinstance(t, tuple) and t and t[0] == "obj"):
            return None
        ev = self.ev(t[1])
        inits = ev.obj_init(t[2])
        if len(inits) == 1:
            return inits[0][1]
        return None

    def obj_events(self, t, live=None):
        ev = self.ev(t[1])
        return ev.events_on(t[2])

    def buffer_seq(self, t, upto_bb=None, ev=None):
        """Ordered content history of a buffer-like object: [init term] + appended terms.  Returns None when the history
        is not a straight dominance-ordered sequence of known appenders (fail closed)."""
        if not (isinstance(t, tuple) and t and t[0] == "obj"):
            return None
        ev = ev or self.ev(t[1])
        fn = ev.fn
        init = ev.obj_init(t[2])
        if len(init) != 1:
            return None
        seq = [init[0][1]]
        last_bb = init[0][0]
        for (b, callee, argi, ap) in ev.events_on(t[2]):
            if upto_bb is not None and (b == upto_bb or not fn.dominates(b, upto_bb)):
                if b == upto_bb:
                    continue
                # an event that does not dominate the use: only harmless if it cannot precede it
                if fn.reaches(b, upto_bb):
                    return None
                continue
            name = callee_name(callee)
            t_call = fn.blocks[b].term
            if argi != 0:
                # passed as a non-receiver argument: read-only use if the parameter type is a shared ref
                aty = t_call["arg_tys"][argi]
                if aty.startswith("&mut"):
                    return None
                continue
            aty = t_call["arg_tys"][0]
            if not aty.startswith("&mut"):
                continue  # shared borrow: read
            if name in APPENDERS:
                if not fn.dominates(last_bb, b) or fn.in_loop(b):
                    return None
                args = ev.call_args(b)
                seq.append(args[1] if len(args) > 1 else values.TOP)
                last_bb = b
            elif name in ("reserve", "deref_mut", "as_mut_slice", "as_mut"):
                continue
            else:
                return None
        return seq

    READERS = ("next", "read_u16", "read_u32", "read_u64", "read_exact", "read_to_end", "read", "position",
               "set_position", "next_back", "by_ref")

    def expand(self, t, depth=0):
        """Replace objects that are only read/advanced (cursors, iterators, `&mut &[u8]` readers) by
        ('reader', initial value); other objects keep their identity."""
        if not isinstance(t, tuple) or not t or depth > 12:
            return t
        if t[0] == "obj":
            init = self.obj_init(t)
            if init is None:
                return t
            ev = self.ev(t[1])
            fn = ev.fn
            for (b, callee, argi, ap) in ev.events_on(t[2]):
                aty = fn.blocks[b].term["arg_tys"][argi]
                if aty.startswith("&mut") and callee_name(callee) not in self.READERS:
                    return t
            return ("reader", self.expand(init, depth + 1))
        if t[0] in ("int", "str", "bytes", "enum", "param", "zst", "static", "fnref", "top"):
            return t
        return tuple(self.expand(x, depth + 1) if isinstance(x, tuple) else x for x in t)

    # ---- substitution
    def subst(self, t, mapping):
        if not isinstance(t, tuple) or not t:
            return t
        if t in mapping:
            return mapping[t]
        if t[0] in ("int", "str", "bytes", "enum", "param", "obj", "zst", "static", "fnref", "top"):
            return t
        return tuple(self.subst(x, mapping) if isinstance(x, tuple) else x for x in t)

    def bind_params(self, t, fnpath, args):
        mapping = {("param", fnpath, i + 1): a for i, a in enumerate(args)}
        return self.subst(t, mapping)

    def subst_fields(self, t, self_term, fields):
        """Replace ('field', self_term, F) by fields[F]."""
        if not isinstance(t, tuple) or not t:
            return t
        if t[0] == "field" and t[1] == self_term and t[2] in fields:
            return fields[t[2]]
        if t[0] in ("int", "str", "bytes", "enum", "param", "obj", "zst", "static", "fnref", "top"):
            return t
        return tuple(self.subst_fields(x, self_term, fields) if isinstance(x, tuple) else x for x in t)


def tag_of(t):
    if isinstance(t, tuple) and t and t[0] == "enum" and t[1] == TAG:
        return t[2]
    return None


PARSE_WRAPPERS = ("RtMessage::from_bytes", "RtMessage::into_hash_map", "read_u64", "read_u32", "read_u16",
                  "ReadBytesExt::read_u64", "ReadBytesExt::read_u32")


def tagpath(world, t, depth=0):
    """Interpret a term as `root[TAG1][TAG2]...` where each step is a tag lookup in a (nested) Roughtime message:
    returns (root_term, (tags...), decoders) or None.  Looks through from_bytes / into_hash_map / unwrap / LE reads."""
    tags = []
    decoders = []
    for _ in range(40):
        if not isinstance(t, tuple) or not t:
            return None
        if t[0] == "index":
            tg = tag_of(t[2])
            if tg is None:
                return None
            tags.append(tg)
            t = t[1]
            continue
        if t[0] == "call":
            name = strip_generics(t[1])
            short = "::".join(name.split("::")[-2:])
            if short.endswith("RtMessage::get_field") and len(t[2]) == 2 and tag_of(t[2][1]):
                tags.append(tag_of(t[2][1]))
                t = t[2][0]
                continue
            if any(short.endswith(w) for w in PARSE_WRAPPERS) and t[2]:
                decoders.append(short)
                t = t[2][0]
                continue
            break
        if t[0] in ("vfield", "reader"):
            t = t[1]
            continue
        if t[0] == "obj":
            init = world.obj_init(t)
            if init is None:
                break
            t = init
            continue
        if t[0] == "cast":
            t = t[3]
            continue
        break
    return (t, tuple(reversed(tags)), tuple(decoders))


def enforced(fn, ev, call_bb, world=None):
    """T-diverge for a bool-returning predicate call at call_bb: returns
    ('diverge', [false successor blocks]) when every branch on the result has a diverging false edge,
    ('returned', None) when the result flows to the function's return value,
    ('unchecked', reason) otherwise."""
    t = fn.blocks[call_bb].term
    cterm = ev.call_term(call_bb)
    div = fn.diverging()
    found_branch = []
    bad = []
    for bl in fn.blocks:
        if bl.idx not in fn.reachable():
            continue
        tt = bl.term
        cond = None
        if tt["k"] == "switch":
            cond = ev.op(tt["op"], (bl.idx, "term"))
        elif tt["k"] == "assert":
            cond = ev.op(tt["cond"], (bl.idx, "term"))
        if cond is None:
            continue
        neg = False
        c = cond
        while isinstance(c, tuple) and c[0] == "un" and c[1] == "Not":
            c = c[2]
            neg = not neg
        if c != cterm:
            continue
        if tt["k"] == "assert":
            # assert(cond == expected) diverges (panics) otherwise
            exp_true = tt["expected"] != neg
            if exp_true:
                found_branch.append(bl.idx)
            else:
                bad.append((bl.idx, "asserted false"))
            continue
        # switch: find the successor taken when the predicate is false
        false_val = 1 if neg else 0
        false_succ = None
        for val, tgt in tt["cases"]:
            if val == false_val:
                false_succ = tgt
        if false_succ is None:
            false_succ = tt["otherwise"]
        if false_succ in div:
            found_branch.append(bl.idx)
        else:
            bad.append((bl.idx, "false edge bb%d returns normally" % false_succ))
    if bad:
        return ("unchecked", "; ".join("%s: %s" % (fn.loc(b), why) for b, why in bad))
    if found_branch:
        return ("diverge", found_branch)
    # returned?
    r = ev.ret()
    if values.contains(r, lambda s: s == cterm) or r == cterm:
        return ("returned", None)
    return ("unchecked", "result is neither branched on nor returned")
