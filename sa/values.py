"""Demand-driven provenance terms over MIR (A3 in DESIGN.md): reaching definitions, constant folding,
branch folding under assumptions, on-demand inlining of crate-local callees, access paths for &mut objects."""
from collections import deque

from mir import strip_generics

TOP = ("top",)

# callees whose result is (a view of / a copy of / the success payload of) their first argument
TRANSPARENT = {
    "core::ops::deref::Deref::deref", "core::ops::deref::DerefMut::deref_mut",
    "core::convert::AsRef::as_ref", "core::convert::AsMut::as_mut", "core::borrow::Borrow::borrow",
    "core::borrow::BorrowMut::borrow_mut",
    "core::clone::Clone::clone", "alloc::borrow::ToOwned::to_owned", "alloc::slice::to_vec",
    "alloc::slice::<impl [T]>::to_vec", "alloc::vec::Vec::as_slice", "alloc::vec::Vec::as_mut_slice",
    "alloc::string::String::as_str", "alloc::string::String::as_bytes", "core::str::<impl str>::as_bytes",
    "alloc::string::ToString::to_string", "alloc::str::<impl str>::to_string",
    "core::convert::Into::into", "core::convert::From::from", "core::convert::TryInto::try_into",
    "core::convert::TryFrom::try_from",
    "core::option::Option::unwrap", "core::option::Option::expect", "core::result::Result::unwrap",
    "core::result::Result::expect", "core::option::Option::as_ref", "core::option::Option::as_mut",
    "core::option::Option::as_deref", "core::option::Option::as_deref_mut", "core::result::Result::as_deref",
    "core::result::Result::as_ref", "core::option::Option::cloned", "core::option::Option::copied",
    "core::ops::try_trait::Try::branch", "core::iter::traits::collect::IntoIterator::into_iter",
    "core::slice::<impl [T]>::iter", "core::slice::<impl [T]>::iter_mut", "alloc::vec::Vec::iter",
    "core::array::<impl [T; N]>::as_slice", "core::array::<impl [T; N]>::as_ref",
    "alloc::boxed::Box::new", "alloc::boxed::Box::as_ref", "std::io::Cursor::new", "std::io::cursor::Cursor::new",
    "std::io::cursor::Cursor::get_ref", "core::mem::take",
    "alloc::sync::Arc::new", "core::slice::<impl [T]>::as_ref",
    "alloc::vec::Vec::from", "core::slice::iter", "core::slice::iter_mut", "core::slice::as_ref", "core::str::as_bytes",
    "alloc::str::to_string", "core::array::as_slice", "core::array::as_ref", "alloc::slice::to_vec", "core::slice::to_vec",
    "alloc::slice::<impl [T]>::to_vec", "core::array::iter",
    "alloc::vec::Vec::into_boxed_slice", "alloc::slice::<impl [T]>::into_vec", "alloc::slice::into_vec", "alloc::string::String::into_boxed_str",
    "alloc::string::String::into_bytes",
}


def is_transparent(path, trait=None, method=None):
    p = strip_generics(path)
    if p in TRANSPARENT:
        return True
    if trait and method and (trait + "::" + method) in TRANSPARENT:
        return True
    # impl paths of the listed traits, e.g. `<alloc::vec::Vec<T> as core::ops::deref::Deref>::deref`
    for t in ("core::ops::deref::Deref", "core::ops::deref::DerefMut", "core::convert::AsRef", "core::clone::Clone",
              "core::borrow::Borrow", "alloc::borrow::ToOwned", "core::convert::Into", "core::convert::From",
              "core::convert::TryFrom", "core::convert::TryInto", "core::iter::traits::collect::IntoIterator",
              "core::convert::AsMut"):
        if (" as " + t) in path or ("impl " + t) in path:
            return True
    return False


VIEW_NAMES = ("deref", "deref_mut", "as_ref", "as_mut", "borrow", "borrow_mut", "as_slice", "as_mut_slice", "as_bytes", "as_str",
              "as_mut_ptr", "as_ptr", "by_ref")


def is_view(path, trait=None, method=None):
    """Callees whose result is a reference INTO their first argument (so mutating through the result mutates the argument)."""
    name = strip_generics(path).split("::")[-1]
    return name in VIEW_NAMES


def const_term(c):
    if c.get("option") == "Some" and "payload" in c:
        return ("agg", "core::option::Option::Some", (const_term(c["payload"]),), ("0",))
    if c.get("option") == "None":
        return ("agg", "core::option::Option::None", (), ())
    if "enum" in c:
        return ("enum", c["enum"][0], c["enum"][2])
    if "bool" in c:
        return ("int", 1 if c["bool"] else 0)
    if "int" in c:
        return ("int", c["int"])
    if "uint_hex" in c:
        return ("int", int(c["uint_hex"], 16))
    if "str" in c:
        return ("str", c["str"])
    if "bytes" in c and not c.get("raw"):
        return ("bytes", bytes(c["bytes"]))
    if "ref" in c:
        return const_term(c["ref"])
    if "fn" in c:
        return ("fnref", c["fn"])
    if "elems" in c:
        return ("arr", tuple(const_term(e) for e in c["elems"]))
    if "fields" in c and "adt" in c:
        return ("agg", c["adt"], tuple(const_term(v) for v in c["fields"].values()), tuple(c["fields"].keys()))
    if "zst" in c:
        return ("zst", c.get("ty", ""))
    if "static" in c:
        return ("static", c["static"])
    return ("opaque", c.get("ty", ""), c.get("item", ""))


def subterms(t):
    """All subterms of a term (pre-order)."""
    stack = [t]
    while stack:
        x = stack.pop()
        yield x
        if isinstance(x, tuple):
            for y in (x[1:] if (x and isinstance(x[0], str)) else x):
                if isinstance(y, tuple):
                    stack.append(y)


def contains(t, pred):
    for s in subterms(t):
        if isinstance(s, tuple) and s and isinstance(s[0], str) and pred(s):
            return True
    return False


VARIANT_INDEX = {"Ok": 0, "Err": 1, "None": 0, "Some": 1, "Continue": 0, "Break": 1}


def strip_payload(t):
    """Look through Ok/Some/Continue payload selection (unwrap/expect/`?` are transparent in terms), also of a value that was just wrapped:
    `Ok(x)` built by a helper and unwrapped by its caller is x."""
    for _ in range(12):
        if isinstance(t, tuple) and t and t[0] == "vfield":
            t = t[1]
        elif isinstance(t, tuple) and len(t) >= 3 and t[0] == "agg" and isinstance(t[1], str) and t[1].rsplit("::", 1)[-1] in ("Ok", "Some") and \
                (t[1].startswith("core::result::Result") or t[1].startswith("core::option::Option")) and isinstance(t[2], tuple) and len(t[2]) == 1:
            t = t[2][0]
        else:
            break
    return t


def fmt(t, depth=0):
    if not isinstance(t, tuple) or not t:
        return repr(t)
    k = t[0]
    if depth > 6:
        return "…"
    if k == "int":
        return str(t[1])
    if k == "str":
        return repr(t[1])
    if k == "bytes":
        return "b" + repr(t[1])[1:] if len(t[1]) < 48 else "bytes[%d]" % len(t[1])
    if k == "enum":
        return "%s::%s" % (t[1].split("::")[-1], t[2])
    if k == "param":
        return "param%d" % t[2]
    if k == "call":
        return "%s(%s)" % (short(t[1]), ", ".join(fmt(a, depth + 1) for a in t[2]))
    if k == "field":
        return "%s.%s" % (fmt(t[1], depth + 1), t[2])
    if k == "vfield":
        return "%s?%s.%s" % (fmt(t[1], depth + 1), t[2], t[3])
    if k == "phi":
        return "phi(%s)" % ", ".join(fmt(a, depth + 1) for a in t[1])
    if k == "bin":
        return "(%s %s %s)" % (fmt(t[2], depth + 1), t[1], fmt(t[3], depth + 1))
    if k == "agg":
        return "%s{%s}" % (short(str(t[1])), ", ".join(fmt(a, depth + 1) for a in t[2]))
    return "%s(%s)" % (k, ", ".join(fmt(a, depth + 1) if isinstance(a, tuple) else str(a) for a in t[1:]))


def short(p):
    p = strip_generics(p)
    parts = p.split("::")
    return "::".join(parts[-2:]) if len(parts) > 1 else p


INT_RANGES = {
    "u8": (0, 2 ** 8 - 1), "u16": (0, 2 ** 16 - 1), "u32": (0, 2 ** 32 - 1), "u64": (0, 2 ** 64 - 1),
    "u128": (0, 2 ** 128 - 1), "usize": (0, 2 ** 64 - 1),
    "i8": (-2 ** 7, 2 ** 7 - 1), "i16": (-2 ** 15, 2 ** 15 - 1), "i32": (-2 ** 31, 2 ** 31 - 1),
    "i64": (-2 ** 63, 2 ** 63 - 1), "i128": (-2 ** 127, 2 ** 127 - 1), "isize": (-2 ** 63, 2 ** 63 - 1),
}


def fold_aff(base, a, b):
    """Parity-affine domain (A8): ('aff', m, c) stands for m*k + c with k >= 0 symbolic (and m*k + c >= 0)."""
    if a[0] == "aff" and b[0] == "int":
        m, c, n = a[1], a[2], b[1]
        if base == "Add":
            return ("aff", m, c + n)
        if base == "Sub":
            return ("aff", m, c - n)
        if base == "Mul":
            return ("aff", m * n, c * n)
        if base in ("Rem",) and n > 0 and m % n == 0:
            return ("int", c % n)
        if base == "BitAnd" and n == 1 and m % 2 == 0:
            return ("int", c & 1)
        if base == "BitXor" and n == 1 and m % 2 == 0 and c >= 0:
            return ("aff", m, c ^ 1)
        if base == "BitOr" and n == 1 and m % 2 == 0 and c >= 0:
            return ("aff", m, c | 1)
        if base == "Div" and n > 0 and m % n == 0 and c >= 0:
            return ("aff", m // n, c // n)
        if base == "Shr" and n >= 0 and m % (1 << n) == 0 and c >= 0:
            return ("aff", m >> n, c >> n)
        if base == "Shl" and n >= 0:
            return ("aff", m << n, c << n)
    if a[0] == "int" and b[0] == "aff":
        if base in ("Add", "Mul"):
            return fold_aff(base, b, a)
    return None


def fold_bin(op, a, b):
    if a[0] == "aff" or b[0] == "aff":
        base = op.replace("WithOverflow", "").replace("Unchecked", "")
        return fold_aff(base, a, b)
    if a[0] == "int" and b[0] == "int":
        x, y = a[1], b[1]
        base = op.replace("WithOverflow", "").replace("Unchecked", "")
        try:
            if base == "Add":
                return ("int", x + y)
            if base == "Sub":
                return ("int", x - y)
            if base == "Mul":
                return ("int", x * y)
            if base == "Div" and y != 0:
                return ("int", x // y)
            if base == "Rem" and y != 0:
                return ("int", x % y)
            if base == "BitAnd":
                return ("int", x & y)
            if base == "BitOr":
                return ("int", x | y)
            if base == "BitXor":
                return ("int", x ^ y)
            if base == "Shl":
                return ("int", x << y)
            if base == "Shr":
                return ("int", x >> y)
            if base == "Eq":
                return ("int", int(x == y))
            if base == "Ne":
                return ("int", int(x != y))
            if base == "Lt":
                return ("int", int(x < y))
            if base == "Le":
                return ("int", int(x <= y))
            if base == "Gt":
                return ("int", int(x > y))
            if base == "Ge":
                return ("int", int(x >= y))
        except Exception:
            pass
    if a[0] == "enum" and b[0] == "enum" and op in ("Eq", "Ne"):
        return ("int", int((a == b) == (op == "Eq")))
    return None


class Ev:
    """Term evaluator for one function body."""

    def __init__(self, prog, fn, binds=None, assume=None, depth=0, max_depth=6, stack=(), overrides=None):
        self.prog = prog
        self.fn = fn
        self.overrides = overrides or {}
        self.binds = binds or {}
        self.assume = assume or {}
        self.depth = depth
        self.max_depth = max_depth
        self.stack = stack + (fn.path,)
        self.memo = {}
        self.inprog = set()
        self._live = None
        self._paths = None
        self.tty = {}

    # ------------------------------------------------------------ liveness under assumptions
    def live(self):
        if self._live is None:
            self._live = set(range(len(self.fn.blocks)))  # provisional: everything, while evaluating discriminants
            # iterate: folding a branch removes definitions, which can make a later discriminant constant (e.g. a helper returning an enum
            # that was inlined and is matched on right after); the live set only shrinks, so this terminates
            for _round in range(6):
                live = {0}
                dq = deque([0])
                while dq:
                    b = dq.popleft()
                    t = self.fn.blocks[b].term
                    succs = self.fn.succ(b)
                    if t["k"] == "switch":
                        v = self.op(t["op"], (b, "term"))
                        if v[0] == "int":
                            tgt = t["otherwise"]
                            for val, bb in t["cases"]:
                                if val == v[1]:
                                    tgt = bb
                            succs = [tgt]
                    for s in succs:
                        if s not in live:
                            live.add(s)
                            dq.append(s)
                stable = live == self._live
                self._live = live
                self.memo = {}
                if stable:
                    break
        return self._live

    # ------------------------------------------------------------ operands / places
    def norm(self, t):
        return self.assume.get(t, t)

    def op(self, o, at):
        if "c" in o:
            return const_term(o["c"])
        pl = o.get("cp") or o.get("mv")
        if pl is None:
            return TOP
        return self.place(pl, at)

    def place(self, pl, at):
        t = self.local(pl["l"], at)
        for e in pl.get("p", []):
            t = self.project(t, e, at)
        return t

    def project(self, t, e, at):
        if e == "deref":
            return t
        if "f" in e:
            name = e.get("name", str(e["f"]))
            if e.get("adt") in self.prog.newtypes:
                return t        # a crate-local newtype `struct N(T)` is its content
            if e.get("adt") in ("alloc::boxed::Box", "core::ptr::unique::Unique") and e["f"] == 0:
                return t        # `*boxed` is lowered to `*(boxed.0.pointer as *const T)`: what a Box holds is named like the Box
            if t[0] == "agg":
                ops = t[2]
                names = t[3] if len(t) > 3 else None
                if names and name in names:
                    return ops[names.index(name)]
                if e["f"] < len(ops) and not names:
                    return ops[e["f"]]
            if t[0] == "closure" and e["f"] < len(t[2]):
                return t[2][e["f"]]
            if t[0] == "phi" and t[1] and all(isinstance(a, tuple) and len(a) >= 3 and a[0] == "agg" and a[1] == "tuple" and e["f"] < len(a[2]) for a in t[1]):
                # `let (a, b) = if c { (x, true) } else { (y, false) }`: a component of the merged tuple is the merge of the components
                comps = []
                for a in t[1]:
                    if a[2][e["f"]] not in comps:
                        comps.append(a[2][e["f"]])
                return comps[0] if len(comps) == 1 else ("phi", tuple(comps))
            if t[0] == "variant":
                base, vname = t[1], t[2]
                if base[0] == "phi":
                    # only the alternatives built as this variant can be matched as it (Ok/Continue, Err/Break, Some, None by index)
                    want = VARIANT_INDEX.get(vname)
                    alts = []
                    others = []
                    unknown = False
                    for alt in base[1]:
                        if alt[0] == "agg" and isinstance(alt[1], str) and "::" in alt[1]:
                            an = alt[1].rsplit("::", 1)[-1]
                            if an == vname or (want is not None and VARIANT_INDEX.get(an) == want and an in VARIANT_INDEX):
                                alts.append(alt)
                        elif alt[0] == "call" and strip_generics(alt[1]).split("::")[-1] == "from_residual" and vname in ("Ok", "Continue", "Some"):
                            pass        # `x?` that failed: FromResidual builds the failure variant, never the one matched here
                        else:
                            unknown = True
                            others.append(alt)
                    if not unknown and len(alts) == 1:
                        base = alts[0]
                        if e["f"] < len(base[2]):
                            return base[2][e["f"]]
                    if unknown and not alts and len(others) == 1 and len(base[1]) > 1:
                        # `x?` residuals aside, one producer is left: the matched payload is that producer's
                        base = others[0]
                if base[0] == "agg" and str(base[1]).endswith("::" + vname):
                    ops = base[2]
                    if e["f"] < len(ops):
                        return ops[e["f"]]
                if vname == "Some" and e["f"] == 0 and base[0] == "call" and strip_generics(base[1]).endswith("slice::get") and len(base[2]) == 2 \
                        and base[2][1][0] == "agg" and "ops::range::Range" in str(base[2][1][1]):
                    # the Some payload of `s.get(a..b)` is the sub-slice `s[a..b]`
                    return self.norm(("index", base[2][0], base[2][1]))
                return self.norm(("vfield", base, vname, e["f"]))
            if t[0] == "bin" and t[1].endswith("WithOverflow"):
                if e["f"] == 0:
                    return ("bin", t[1].replace("WithOverflow", ""), t[2], t[3])
                return ("ovf", t[1], t[2], t[3])
            if t[0] == "int" and e["f"] == 0:
                # checked op folded to a constant
                return t
            sp = self.split_component(t, e["f"])
            if sp is not None:
                return self.norm(sp)
            return self.norm(("field", t, name))
        if "dc" in e:
            return ("variant", t, e.get("name", str(e["dc"])))
        if "idx" in e:
            return ("idx", t, self.local(e["idx"], at))
        if "cidx" in e:
            if t[0] == "bytes" and not e.get("end") and e["cidx"] < len(t[1]):
                return ("int", t[1][e["cidx"]])
            if t[0] == "agg" and t[1] == "array" and not e.get("end") and e["cidx"] < len(t[2]):
                return t[2][e["cidx"]]
            return ("idx", t, ("int", -e["cidx"] if e.get("end") else e["cidx"]))
        if "sub" in e:
            return ("subslice", t, e["sub"][0], e["sub"][1], bool(e.get("end")))
        return ("proj", t, str(e))

    # ------------------------------------------------------------ reaching definitions
    def reaching(self, l, at):
        """Definitions (bb, idx, kind) of local l that reach program point `at` (exclusive), live blocks only.
        Returns (defs, reaches_entry)."""
        fn = self.fn
        alld = fn.defs().get(l, [])
        live = self._live if self._live is not None else None
        byblock = {}
        for d in alld:
            if d[2] in ("whole",):
                byblock.setdefault(d[0], []).append(d)
        bb, idx = at
        out = []
        entry = False

        def scan(b, before):
            ds = byblock.get(b)
            if not ds:
                return None
            best = None
            for d in ds:
                pos = 10 ** 9 if d[1] == "term" else d[1]
                if before is not None and pos >= before:
                    continue
                if best is None or pos > (10 ** 9 if best[1] == "term" else best[1]):
                    best = d
            return best

        before = 10 ** 9 if idx == "term" else idx
        d = scan(bb, before)
        if d is not None:
            return [d], False
        seen = set()
        dq = deque()
        if bb == 0:
            entry = True
        for p in fn.pred(bb):
            dq.append(p)
        while dq:
            b = dq.popleft()
            if b in seen:
                continue
            seen.add(b)
            if live is not None and b not in live:
                continue
            d = scan(b, None)
            if d is not None:
                # a call's destination is only defined on the normal return edge; fine for normal CFG
                if d not in out:
                    out.append(d)
                continue
            if b == 0:
                entry = True
            for p in fn.pred(b):
                dq.append(p)
        return out, entry

    def local(self, l, at):
        key = (l, at)
        if key in self.memo:
            return self.memo[key]
        if key in self.inprog:
            return ("loopvar", self.fn.path, l)
        self.inprog.add(key)
        try:
            t = self._local(l, at)
        finally:
            self.inprog.discard(key)
        t = self.norm(t)
        self.memo[key] = t
        if isinstance(t, tuple) and t and t[0] not in ("int", "phi"):
            self.tty.setdefault(t, self.fn.locals[l]["ty"])
        return t

    def _local(self, l, at):
        fn = self.fn
        if l in self.overrides:
            return self.overrides[l]
        if fn.is_object(l) and not (1 <= l <= fn.nargs and l in self.binds):
            ap = self.access_paths().get(l)
            if ap is not None and ap[0] != l and ap[1] == () and fn.is_object(ap[0]) and not (1 <= ap[0] <= fn.nargs):
                return ("obj", fn.path, ap[0])      # moved-in object: one identity
            return ("obj", fn.path, l)
        defs, entry = self.reaching(l, at)
        terms = []
        if entry or not defs:
            if 1 <= l <= fn.nargs:
                terms.append(self.binds.get(l, ("param", fn.path, l)))
            elif not defs:
                # memory object initialised through partial writes / out-parameters
                terms.append(("obj", fn.path, l))
        for (b, i, kind) in defs:
            if i == "term":
                terms.append(self.call_term(b))
            else:
                st = fn.blocks[b].stmts[i]
                terms.append(self.rvalue(st["rv"], (b, i)))
        uniq = []
        for t in terms:
            if t not in uniq:
                uniq.append(t)
        if len(uniq) == 1:
            return uniq[0]
        return ("phi", tuple(uniq))

    # ------------------------------------------------------------ rvalues
    def rvalue(self, rv, at):
        k = rv["k"]
        if k == "use":
            return self.op(rv["op"], at)
        if k in ("ref", "rawptr"):
            return self.place(rv["place"], at)
        if k == "cast":
            inner = self.op(rv["op"], at)
            ck = rv["ck"]
            if ck.startswith("IntToInt") or ck.startswith("FloatToInt") or ck.startswith("IntToFloat"):
                if inner[0] == "int" and rv["to"] in INT_RANGES:
                    lo, hi = INT_RANGES[rv["to"]]
                    v = inner[1]
                    if lo <= v <= hi:
                        return ("int", v)
                    width = hi - lo + 1
                    v = (v - lo) % width + lo
                    return ("int", v)
                return ("cast", rv["from"], rv["to"], inner)
            return inner
        if k == "binop":
            a = self.op(rv["a"], at)
            b = self.op(rv["b"], at)
            f = fold_bin(rv["op"], a, b)
            if f is not None:
                if rv["op"].endswith("WithOverflow"):
                    return ("agg", "tuple", (f, ("int", 0)), None)
                return f
            return ("bin", rv["op"], a, b)
        if k == "unop":
            a = self.op(rv["a"], at)
            if rv["op"] == "PtrMetadata":
                if a[0] == "bytes":
                    return ("int", len(a[1]))
                return ("len", a)
            if rv["op"] == "Not" and a[0] == "int" and a[1] in (0, 1):
                return ("int", 1 - a[1])
            return ("un", rv["op"], a)
        if k == "discr":
            a = self.place(rv["place"], at)
            if a[0] == "enum":
                for val, name in rv.get("variants", []):
                    if name == a[2]:
                        return ("int", val)
            if a[0] == "agg" and rv.get("adt") and str(a[1]).startswith(rv["adt"] + "::"):
                vn = str(a[1]).split("::")[-1]
                for val, name in rv.get("variants", []):
                    if name == vn:
                        return ("int", val)
            kv = self.known_variant(a)
            if kv is not None:
                for val, name in rv.get("variants", []):
                    if name == kv:
                        return ("int", val)
            if rv.get("adt"):
                self.__dict__.setdefault("discr_adt", {})[a] = rv["adt"]       # which enum's discriminant is read (a transparent conversion hides it in the term)
            return ("discr", a)
        if k == "agg":
            ak = rv["ak"]
            ops = tuple(self.op(o, at) for o in rv["ops"])
            if ak == "adt":
                if rv["adt"] in self.prog.newtypes and len(ops) == 1:
                    return ops[0]
                adt = self.prog.adts.get(rv["adt"])
                if adt is not None and adt["kind"] == "enum" and not rv["ops"] and all(not v["fields"] for v in adt["variants"]):
                    return ("enum", rv["adt"], rv["vname"])
                label = rv["adt"] + "::" + rv["vname"]
                fields = rv.get("fields", [])
                if len(fields) == len(ops):
                    return ("agg", label, ops, tuple(fields))
                return ("agg", label, ops, None)
            if ak == "closure":
                return ("closure", rv["closure"], ops)
            return ("agg", ak, ops, None)
        if k == "repeat":
            return ("repeat", self.op(rv["op"], at), rv.get("n", rv.get("count")))
        if k == "tls":
            return ("static", rv["static"])
        return ("other", rv.get("text", k))

    # ------------------------------------------------------------ calls
    def call_args(self, b):
        t = self.fn.blocks[b].term
        if t.get("k") != "call" or "args" not in t:
            return []       # not a call site (e.g. the block in which a closure value is built)
        return [self.op(a, (b, "term")) for a in t["args"]]

    def call_term(self, b):
        t = self.fn.blocks[b].term
        f = t["fn"]
        if f.get("indirect"):
            return ("call", "<indirect>", tuple(self.call_args(b)), (self.fn.path, b))
        path = f.get("path", f.get("orig"))
        args = tuple(self.call_args(b))
        if is_transparent(path, f.get("trait"), f.get("trait_method")) and args:
            # derived Clone on local types etc. are still "the same value"
            if strip_generics(path).split("::")[-1] in ("unwrap", "expect"):
                return self.unwrapped(args[0])
            return args[0]
        # x.unwrap_or_else(|e| panic!(..)): the closure never returns, so the value is the payload of x (like expect)
        if len(args) == 2 and strip_generics(path) in ("core::option::Option::unwrap_or_else", "core::result::Result::unwrap_or_else") \
                and isinstance(args[1], tuple) and args[1] and args[1][0] == "closure":
            cf = self.prog.fns.get(args[1][1])
            if cf is not None and 0 in cf.diverging():
                return self.unwrapped(args[0])
        # x.map(|v| f(v)) on Option/Result: the payload is the closure body applied to the payload of x (wrapper and payload are one term here)
        if len(args) == 2 and strip_generics(path) in ("core::option::Option::map", "core::result::Result::map") and isinstance(args[1], tuple) and args[1] and args[1][0] == "closure":
            cfn_ = self.prog.fns.get(args[1][1])
            rty_ = (cfn_.locals[0]["ty"] if cfn_ is not None and cfn_.locals else "").strip()
            # `x.map(|v| fallible(v))` builds a nested Result/Option: whether the outcome is Ok/Some is decided by x alone, not by what the closure
            # returns (that is `and_then`).  Only a closure with a plain payload is reduced; the nested form stays a `map` call.
            if not (rty_.startswith("core::result::Result<") or rty_.startswith("core::option::Option<")):
                r = self.apply_closure(args[1], [self.payload_term(args[0])])
                if r is not None:
                    return r
        # x.and_then(|v| f(v)) on Option/Result: f applied to the payload (wrapper and payload are one term here)
        if len(args) == 2 and strip_generics(path) in ("core::option::Option::and_then", "core::result::Result::and_then") and isinstance(args[1], tuple) and args[1] and args[1][0] == "closure":
            r = self.apply_closure(args[1], [self.payload_term(args[0])])
            if r is not None:
                return r
        # a local closure called directly, `let f = |a, b| ..; f(x, y)`: its body applied to the arguments
        if len(args) == 2 and isinstance(args[0], tuple) and args[0] and args[0][0] == "closure" and "{closure#" in str(path) and args[0][1] == path \
                and isinstance(args[1], tuple) and len(args[1]) >= 3 and args[1][0] == "agg" and args[1][1] == "tuple":
            r = self.apply_closure(args[0], list(args[1][2]))
            if r is not None:
                return r
        # x.map(path::to::function): the function applied to the payload
        if len(args) == 2 and strip_generics(path) in ("core::option::Option::map", "core::result::Result::map") and isinstance(args[1], tuple) and args[1] and args[1][0] == "fnref":
            tf_ = self.prog.fns.get(args[1][1])
            rt_ = (tf_.locals[0]["ty"] if tf_ is not None and tf_.locals else "").strip()
            if not (rt_.startswith("core::result::Result<") or rt_.startswith("core::option::Option<")):
                return ("call", args[1][1], (args[0],), (self.fn.path, b))
        if f.get("trait") == "core::cmp::PartialEq" and len(args) == 2:
            r = fold_bin("Eq" if f.get("trait_method") == "eq" else "Ne", args[0], args[1])
            if r is not None:
                return r
            if args[0][0] == "bytes" and args[1][0] == "bytes":
                return ("int", int((args[0] == args[1]) == (f.get("trait_method") == "eq")))
        if len(args) == 1 and strip_generics(path).split("::")[-1] == "len" and not path.startswith("roughenough"):
            if args[0][0] == "bytes":
                return ("int", len(args[0][1]))
            if self.stable_place(args[0]):
                return ("len", args[0])
            return ("len", args[0], (self.fn.path, b))
        if len(args) == 2 and "core::num" in str(path) and isinstance(args[0], tuple) and isinstance(args[1], tuple) and args[0] and args[1] and \
                args[0][0] in ("int", "aff") and args[1][0] == "int":
            # integer methods on constants / parity-affine values: the operator they stand for where that is exact
            nm_ = strip_generics(path).split("::")[-1]
            a_, n_ = args[0], args[1][1]
            lo_ = a_[1] if a_[0] == "int" else (a_[2] if a_[1] >= 0 else None)       # smallest value the first operand can take
            r_ = None
            if nm_ in ("saturating_sub", "wrapping_sub") and lo_ is not None and lo_ >= n_:
                r_ = fold_bin("Sub", a_, args[1])
            elif nm_ in ("saturating_add", "wrapping_add"):
                r_ = fold_bin("Add", a_, args[1])
            elif nm_ == "div_ceil" and n_ > 0:
                if a_[0] == "int":
                    r_ = ("int", -(-a_[1] // n_))
                elif a_[1] % n_ == 0 and a_[2] >= 0:
                    r_ = ("aff", a_[1] // n_, -(-a_[2] // n_))
            if r_ is not None:
                return r_
        if len(args) == 1 and strip_generics(path).startswith("core::time::Duration::") and isinstance(args[0], tuple) and len(args[0]) >= 3 and args[0][0] == "agg" \
                and str(args[0][1]).endswith("time::Duration") and len(args[0][2]) == 2 and args[0][2][0][0] == "int":
            # accessors of a constant Duration (`const RADIUS: Duration = Duration::from_secs(5)`; RADIUS.as_secs())
            secs_ = args[0][2][0][1]
            ns_ = args[0][2][1]
            while isinstance(ns_, tuple) and len(ns_) >= 3 and ns_[0] == "agg" and len(ns_[2]) == 1:
                ns_ = ns_[2][0]
            if isinstance(ns_, tuple) and ns_ and ns_[0] == "int":
                nm_ = strip_generics(path).split("::")[-1]
                tot_ = secs_ * 10 ** 9 + ns_[1]
                v_ = {"as_secs": secs_, "as_millis": tot_ // 10 ** 6, "as_micros": tot_ // 1000, "as_nanos": tot_, "subsec_nanos": ns_[1],
                      "subsec_micros": ns_[1] // 1000, "subsec_millis": ns_[1] // 10 ** 6}.get(nm_)
                if v_ is not None:
                    return ("int", v_)
        if f.get("trait") in ("core::ops::index::Index", "core::ops::index::IndexMut") and len(args) == 2:
            if isinstance(args[1], tuple) and len(args[1]) >= 2 and args[1][0] == "agg" and str(args[1][1]).endswith("RangeFull::RangeFull"):
                return args[0]      # x[..] is x
            return ("index", args[0], args[1])
        return ("call", path, args, (self.fn.path, b))

    @staticmethod
    def unwrapped(t):
        """The payload of a Result/Option value that this function built itself (directly or through an inlined helper): `Ok(x)` on the success
        path and `?` residuals on the others - what unwrap/expect returns is x."""
        def is_wrap(a):
            return isinstance(a, tuple) and len(a) >= 3 and a[0] == "agg" and isinstance(a[1], str) and a[1] in ("core::result::Result::Ok", "core::option::Option::Some") \
                and isinstance(a[2], tuple) and len(a[2]) == 1
        if is_wrap(t):
            return t[2][0]
        if isinstance(t, tuple) and t and t[0] == "phi":
            rest = [a for a in t[1] if not (isinstance(a, tuple) and a and a[0] == "call" and strip_generics(a[1]).split("::")[-1] == "from_residual")]
            if len(rest) == 1 and is_wrap(rest[0]) and len(rest) < len(t[1]):
                return rest[0][2][0]
        return t

    RANGE = "core::ops::range::Range::Range"
    RANGE_FROM = "core::ops::range::RangeFrom::RangeFrom"

    def split_component(self, t, f):
        """Component f of `s.split_at(n)` / `s.split_at_checked(n)?` / `s.split_first_chunk::<N>()?` as a sub-slice of s:
        .0 = s[..n], .1 = s[n..] (nested ranges composed: s[a..][..n] = s[a..a+n], s[a..][n..] = s[a+n..])."""
        x = strip_payload(t)
        if not (isinstance(x, tuple) and x and x[0] == "call" and x[2] and f in (0, 1)):
            return None
        nm = strip_generics(x[1]).split("::")[-1]
        n = None
        if nm in ("split_at", "split_at_checked") and len(x[2]) == 2:
            n = x[2][1]
        elif nm == "split_first_chunk" and len(x) > 3 and x[3] and x[3][0] in self.prog.fns:
            ct = self.prog.fns[x[3][0]].blocks[x[3][1]].term
            for sub in ct["fn"].get("substs", []):
                if str(sub).strip().isdigit():
                    n = ("int", int(str(sub).strip()))
            if n is None:
                import re as _re
                m = _re.search(r"\[u8; (\d+)\]", str(self.prog.fns[x[3][0]].locals[ct["dst"]["l"]]["ty"])) if ct.get("dst") else None
                n = ("int", int(m.group(1))) if m else None
        if n is None:
            return None
        s0 = x[2][0]
        return compose_index(s0, ("agg", self.RANGE, (("int", 0), n), ("start", "end"))) if f == 0 else compose_index(s0, ("agg", self.RANGE_FROM, (n,), ("start",)))

    def payload_term(self, t):
        """What a closure given to map / and_then receives: the payload of t (for `s.get(range)` that is the sub-slice)."""
        x = strip_payload(t)
        if isinstance(x, tuple) and x and x[0] == "call" and strip_generics(x[1]).endswith("slice::get") and len(x[2]) == 2 and x[2][1][0] == "agg" \
                and "ops::range::Range" in str(x[2][1][1]):
            return compose_index(x[2][0], x[2][1])
        return t

    def known_variant(self, a, depth=0):
        """The variant a Result-like value certainly has: the result of a crate function that provably never returns Err is Ok."""
        if not isinstance(a, tuple) or not a or depth > 4:
            return None
        if a[0] == "agg" and isinstance(a[1], str) and "::" in a[1]:
            return a[1].rsplit("::", 1)[-1]
        if a[0] == "phi":
            ks = {self.known_variant(x, depth + 1) for x in a[1]}
            return next(iter(ks)) if len(ks) == 1 and None not in ks else None
        if a[0] == "call":
            nm = strip_generics(a[1]).split("::")[-1]
            if nm == "branch" and "Try" in a[1] and a[2]:
                return {"Ok": "Continue", "Some": "Continue"}.get(self.known_variant(a[2][0], depth + 1))
            site = a[3] if len(a) > 3 else None
            if site and site[0] in self.prog.fns:
                ct = self.prog.fns[site[0]].blocks[site[1]].term
                if ct["k"] == "call":
                    tg = self.prog.call_targets(ct)
                    if tg and all(x in self.prog.fns and self.prog.never_err(x) for x in tg):
                        return "Ok"
        return None

    def apply_closure(self, clo, cargs):
        """Return term of a crate-local closure applied to argument terms (closure environment bound to the captured values)."""
        path = clo[1]
        callee = self.prog.fns.get(path)
        if callee is None or path in self.stack or self.depth >= self.max_depth:
            return None
        binds = {1: clo}
        for i, a in enumerate(cargs):
            binds[2 + i] = a
        ev = Ev(self.prog, callee, binds=binds, assume=self.assume, depth=self.depth + 1, max_depth=self.max_depth, stack=self.stack + (path,))
        r = ev.ret()
        return None if r == ("never",) else r

    def stable_place(self, t):
        """True when the place described by t cannot be mutated while this function runs (rooted at a shared reference
        parameter, a constant, or a value snapshot such as a call result)."""
        for _ in range(20):
            if not isinstance(t, tuple) or not t:
                return True
            k = t[0]
            if k in ("field", "index", "idx", "subslice", "variant", "vfield", "reader", "cast"):
                t = t[1] if k != "cast" else t[3]
                continue
            if k == "param":
                fn = self.prog.fns.get(t[1])
                if fn is None:
                    return False
                ty = fn.locals[t[2]]["ty"]
                if ty.startswith("&mut"):
                    return False
                if ty.startswith("&"):
                    return True
                return not fn.is_object(t[2])
            if k in ("obj", "loopvar", "phi", "static"):
                return False
            return True
        return False

    # ------------------------------------------------------------ inlining
    def inline(self, term, assume=None):
        """Expand a ('call', local fn, args, site) term into the callee's return term (params bound)."""
        if not (isinstance(term, tuple) and term and term[0] == "call"):
            return term
        path = term[1]
        targets = [path] if path in self.prog.fns else []
        if not targets:
            return term
        callee = self.prog.fns[path]
        if path in self.stack or self.depth >= self.max_depth:
            return term
        binds = {i + 1: a for i, a in enumerate(term[2])}
        ev = Ev(self.prog, callee, binds=binds, assume=assume or self.assume, depth=self.depth + 1,
                max_depth=self.max_depth, stack=self.stack)
        return ev.ret()

    def ret(self):
        live = self.live()
        terms = []
        for b in self.fn.exits():
            if b in live:
                t = self.local(0, (b, "term"))
                if t not in terms:
                    terms.append(t)
        if not terms:
            return ("never",)
        if len(terms) == 1:
            return terms[0]
        return ("phi", tuple(terms))

    def resolve(self, term, rounds=8):
        """Repeatedly inline crate-local calls inside `term` and re-fold (used for per-version tables)."""
        for _ in range(rounds):
            new = self._resolve_once(term)
            if new == term:
                break
            term = new
        return term

    def _resolve_once(self, t):
        if not isinstance(t, tuple) or not t:
            return t
        if t[0] == "call":
            args = tuple(self._resolve_once(a) for a in t[2])
            t2 = ("call", t[1], args, t[3])
            r = self.inline(t2)
            return r
        if t[0] == "field":
            base = self._resolve_once(t[1])
            if base[0] == "agg" and len(base) > 3 and base[3] and t[2] in base[3]:
                return base[2][base[3].index(t[2])]
            return ("field", base, t[2])
        if t[0] == "phi":
            alts = []
            for a in t[1]:
                a = self._resolve_once(a)
                if a not in alts:
                    alts.append(a)
            return alts[0] if len(alts) == 1 else ("phi", tuple(alts))
        if t[0] in ("bin",):
            a = self._resolve_once(t[2])
            b = self._resolve_once(t[3])
            f = fold_bin(t[1], a, b)
            return f if f is not None else ("bin", t[1], a, b)
        if t[0] == "cast":
            inner = self._resolve_once(t[3])
            if inner[0] == "int":
                return inner
            return ("cast", t[1], t[2], inner)
        return t

    def obj_init(self, l):
        """Initial value term(s) of an in-place mutated local (its whole definitions)."""
        fn = self.fn
        out = []
        for (b, i, kind) in fn.defs().get(l, []):
            if kind != "whole":
                continue
            if self._live is not None and b not in self._live:
                continue
            if i == "term":
                out.append((b, self.call_term(b)))
            else:
                out.append((b, self.rvalue(fn.blocks[b].stmts[i]["rv"], (b, i))))
        return out

    # ------------------------------------------------------------ access paths of reference-holding locals
    def _only_live_def(self, l, b):
        ds = [d for d in self.fn.defs().get(l, []) if d[2] == "whole" and (self._live is None or d[0] in self._live)]
        return len(ds) == 1 and ds[0][0] == b

    def access_paths(self):
        """local -> (root_local, (field names...)) for locals that hold a reference to (part of) another local or to
        (part of) the pointee of a parameter.  Derefs are dropped."""
        if self._paths is not None:
            return self._paths
        fn = self.fn
        paths = {}
        for i in range(1, fn.nargs + 1):
            paths[i] = (i, ())
        changed = True
        rounds = 0
        while changed and rounds < 20:
            changed = False
            rounds += 1
            for bl in fn.blocks:
                for st in bl.stmts:
                    if st["k"] != "assign" or st["dst"].get("p"):
                        continue
                    rv = st["rv"]
                    src = None
                    if rv["k"] in ("ref", "rawptr"):
                        src = rv["place"]
                    elif rv["k"] == "use":
                        o = rv["op"]
                        src = o.get("cp") or o.get("mv")
                    elif rv["k"] == "cast" and not rv["ck"].startswith("IntToInt"):
                        o = rv["op"]
                        src = o.get("cp") or o.get("mv")
                    if src is None:
                        continue
                    base = paths.get(src["l"])
                    if base is None:
                        if rv["k"] in ("ref", "rawptr"):
                            base = (src["l"], ())
                        elif rv["k"] == "use" and rv["op"].get("mv") is not None and not src.get("p") and fn.is_object(src["l"]) and \
                                not (1 <= src["l"] <= fn.nargs) and self._only_live_def(st["dst"]["l"], bl.idx):
                            # `outer = move inner` as the only (live) initialisation of outer: the same object under a new name
                            base = (src["l"], ())
                        else:
                            continue
                    fields = tuple(e.get("name", str(e["f"])) for e in src.get("p", []) if isinstance(e, dict) and "f" in e and e.get("adt") not in self.prog.newtypes)
                    newp = (base[0], base[1] + fields)
                    d = st["dst"]["l"]
                    if paths.get(d) != newp and d not in paths:
                        paths[d] = newp
                        changed = True
                t = bl.term
                if t["k"] == "call" and not t["dst"].get("p"):
                    f = t["fn"]
                    p = f.get("path", "")
                    if not f.get("indirect") and is_view(p, f.get("trait"), f.get("trait_method")) and t["args"]:
                        o = t["args"][0]
                        src = o.get("cp") or o.get("mv")
                        if src is not None and not src.get("p"):
                            base = paths.get(src["l"])
                            d = t["dst"]["l"]
                            if base is not None and d not in paths:
                                paths[d] = base
                                changed = True
        self._paths = paths
        return paths

    def arg_path(self, o):
        pl = o.get("cp") or o.get("mv")
        if pl is None:
            return None
        base = self.access_paths().get(pl["l"])
        if base is None:
            base = (pl["l"], ())
        fields = tuple(e.get("name", str(e["f"])) for e in pl.get("p", []) if isinstance(e, dict) and "f" in e and e.get("adt") not in self.prog.newtypes)
        return (base[0], base[1] + fields)

    def events_on(self, root, fields=()):
        """Calls (bb, callee path, arg index) that receive a reference to access path (root, fields...) or an
        extension of it, in block order."""
        out = []
        tgt = self.access_paths().get(root) if not (1 <= root <= self.fn.nargs) else None
        if tgt is not None and tgt[0] != root:
            root, fields = tgt[0], tuple(tgt[1]) + tuple(fields)
        for b, t in self.fn.calls():
            if self._live is not None and b not in self._live:
                continue
            for i, a in enumerate(t["args"]):
                ap = self.arg_path(a)
                if ap and ap[0] == root and ap[1][:len(fields)] == tuple(fields):
                    out.append((b, t["fn"].get("path", t["fn"].get("orig", "<indirect>")), i, ap))
        return out


def compose_index(base, rng):
    """`base[rng]` with a range over a base that is itself `b[a..]` folded into one range over b."""
    if isinstance(base, tuple) and base and base[0] == "index" and isinstance(base[2], tuple) and base[2][0] == "agg" and str(base[2][1]).endswith("RangeFrom::RangeFrom"):
        a = base[2][2][0]
        lab = str(rng[1])

        def add(x, y):
            r = fold_bin("Add", x, y)
            return r if r is not None else ("bin", "Add", x, y)
        if lab.endswith("Range::Range"):
            return ("index", base[1], ("agg", rng[1], (add(a, rng[2][0]), add(a, rng[2][1])), rng[3] if len(rng) > 3 else None))
        if lab.endswith("RangeFrom::RangeFrom"):
            return ("index", base[1], ("agg", rng[1], (add(a, rng[2][0]),), rng[3] if len(rng) > 3 else None))
    return ("index", base, rng)


def must_pass(fn, target_blocks, from_block=0, to_blocks=None, live=None):
    """True if every normal path from `from_block` to any block in `to_blocks` (default: returns) passes through one of
    `target_blocks`."""
    tb = set(target_blocks)
    if to_blocks is None:
        to_blocks = set(fn.exits())
    if from_block in tb:
        return True
    seen = {from_block}
    dq = deque([from_block])
    while dq:
        n = dq.popleft()
        if n in to_blocks:
            return False
        for s in fn.succ(n):
            if s in tb or s in seen:
                continue
            if live is not None and s not in live:
                continue
            seen.add(s)
            dq.append(s)
    return True
