//! Positive fixture (E4): one deliberate instance of every rule whose expected count on a healthy tree is zero.
//! It is extracted and analysed on every check run; a check whose engine no longer reports these instances is broken.

pub struct Cfg {
    pub seed: Vec<u8>,
    pub port: u16,
}

/// taint: a secret field reaches a print sink
pub fn leak(c: &Cfg) {
    println!("seed {:?}", c.seed);
}

/// clean control for the taint rule
pub fn no_leak(c: &Cfg) {
    println!("port {} seed bytes {}", c.port, c.seed.len());
}

/// no-panic: unguarded index, slice, unwrap, addition
pub fn index_unchecked(b: &[u8]) -> u8 {
    b[3]
}

pub fn slice_unchecked(b: &[u8]) -> &[u8] {
    &b[0..4]
}

pub fn unwrap_unchecked(o: Option<u8>) -> u8 {
    o.unwrap()
}

pub fn add_unchecked(a: usize, b: usize) -> usize {
    a + b
}

/// proved control for the no-panic rule
pub fn index_guarded(b: &[u8]) -> u8 {
    if b.len() > 3 {
        b[3]
    } else {
        0
    }
}

/// unbounded recursion on a caller-controlled depth
pub fn recurse(n: usize) -> usize {
    if n == usize::MAX {
        0
    } else {
        recurse(n + 1) + 1
    }
}

/// bounded control
pub fn recurse_bounded(n: usize) -> usize {
    if n >= 8 {
        0
    } else {
        recurse_bounded(n + 1) + 1
    }
}

pub fn verify(x: u8) -> bool {
    x == 1
}

/// T-diverge: the predicate's false edge returns normally
pub fn unchecked_verify(x: u8) {
    if verify(x) {
        println!("ok")
    } else {
        println!("bad")
    }
}

/// enforced control
pub fn checked_verify(x: u8) {
    assert!(verify(x), "bad");
}

/// lossy conversion
pub fn lossy(v: i64) -> u16 {
    v as u16
}

/// dropped Result
pub fn dropped(w: &mut Vec<u8>) {
    let _ = std::io::Write::write_all(w, b"x");
}
